(* The Gallina vocabulary of the register-API translation (harness/cmd/gvgen api): the monad of
   Vedirect/DrvSem.v extended with the values handed to the handlers and the cancellation oracle
   of Api/Api.v.  No proofs here.  Import this file AFTER Vedirect.DrvSem: it re-binds D, ret,
   bind and dpanic to the extended state. *)
From Coq Require Import QArith.
From GV Require Import Vedirect.DrvSem.
From GV Require Export Api.Api.
From GV Require Tables.RegList.
Open Scope Z_scope.

(* what a handler receives (the float64 of a number register as the exact rational) *)
Inductive gvalue :=
| GNum (q : Q)
| GText (t : list byte)
| GEnum (e : Z * string)
| GFields (fs : list (Z * bool)).

Definition gvalue_of (v : rvalue) : gvalue :=
  match v with
  | RVNum q _ => GNum q
  | RVText t => GText t
  | RVEnum i n => GEnum (i, n)
  | RVFields fs => GFields fs
  end.

Record ast := mkA {
  a_d : dst;                                  (* the driver and its clock *)
  a_out : list (reg * gvalue);                (* handler invocations so far *)
  a_cancel : option nat                       (* the context is done once that many values were delivered *)
}.

Definition D (A : Type) := ast -> dout A * ast.
Definition ret {A} (a : A) : D A := fun s => (DVal a, s).
Definition bind {A B} (m : D A) (f : A -> D B) : D B :=
  fun s => match m s with
           | (DVal a, s') => f a s'
           | (DPanic, s') => (DPanic, s')
           | (DFuel, s') => (DFuel, s')
           end.
Definition dpanic {A} : D A := fun s => (DPanic, s).

(* a call into the translated driver *)
Definition lift {A} (m : DrvSem.D A) : D A :=
  fun s => let '(o, d') := m (a_d s) in (o, mkA d' (a_out s) (a_cancel s)).

(* for _, r := range registers { body } *)
Fixpoint range_regs {V R} (l : list reg) (body : reg -> V -> D (lctl V R)) (v : V) : D (lres V R) :=
  match l with
  | [] => ret (LDone v)
  | r :: rest => bind (body r v) (fun c =>
                   match c with
                   | LCont v' => range_regs rest body v'
                   | LBrk v' => ret (LDone v')
                   | LRet x => ret (LReturned x)
                   end)
  end.

(* select { case <-ctx.Done(): ...; default: } *)
Definition p_ctx_done : D bool :=
  fun s => (DVal (cancelled (a_cancel s) (List.length (a_out s))), s).

Definition p_deliver (r : reg) (v : gvalue) : D unit :=
  fun s => (DVal tt, mkA (a_d s) (a_out s ++ [(r, v)]) (a_cancel s)).
Definition p_deliver_num (r : reg) (q : Q) := p_deliver r (GNum q).
Definition p_deliver_text (r : reg) (t : list byte) := p_deliver r (GText t).
Definition p_deliver_enum (r : reg) (e : Z * string) := p_deliver r (GEnum e).
Definition p_deliver_fl (r : reg) (fs : list (Z * bool)) := p_deliver r (GFields fs).

(* the offset of a number register (the exact value of the float64 in the table) *)
Definition r_offset_q (r : reg) : Q := (r_off_num r # Z.to_pos (r_off_den r)).

(* fmt.Errorf("... register '%s' failed: %w", r.Name(), err) *)
Definition gerr_wrap_name (name : list byte) (e : gerr) : gerr :=
  match e with Some x => Some (EWrap name x) | None => Some (EWrap name EOther) end.

(* r.Factory().NewEnum(v int): the constructor over the regenerated IntToStringMap of the factory *)
Definition g_new_enum (factory : string) (v : Z) : (Z * string) * gerr :=
  match new_enum (enum_map_of factory) v with
  | Some e => (e, None)
  | None => ((0, EmptyString), Some EInvalidEnumIdx)
  end.

(* r.Factory().NewFieldList(v uint): a nil factory panics; the value is cut to the type's width *)
Definition g_new_fieldlist (factory : string) (v : Z) : D (list (Z * bool) * gerr) :=
  match fl_of factory with
  | Some f => ret (fl_fields (f_map f) (v mod 2 ^ f_bits f), None)
  | None => dpanic
  end.

(* ---- NewRegisterApi ---- *)

(* the object NewRegisterApi builds (the port and the driver are the ambient state) *)
Record apiobj := mkApi { ao_product : Z; ao_registers : reglist }.

(* vedirect.NewVedirect(port, cfg): the driver on the port; it returns no error *)
Definition p_new_vedirect : D (unit * gerr) := ret (tt, None).

(* veproduct.Product(id).Exists(): the regenerated product table *)
Definition g_product_exists (id : Z) : bool := p_exists (obs_product id).

(* veregister.GetRegisterListByProduct(id): the regenerated list table; class 1 = ErrUnsupportedType *)
Definition g_reglist_by_product (id : Z) : reglist * gerr :=
  let '(e, rl) := obs_reglist id in
  (rl, if e =? 0 then None else Some (if e =? 1 then EUnsupportedType else EOther)).

(* ---- registerValue.go: FieldListValue.CommaString ---- *)

(* a FieldListValue: the register and the decoded field set *)
Record flv := mkFlv { flv_reg : reg; flv_value : list (Z * bool) }.

(* v.value.Fields(): the map Field -> bool; a Field carries its index and its name (the
   IntToStringMap entry of the register's factory) *)
Definition field_name (factory : string) (i : Z) : string :=
  match fl_of factory with
  | Some f => match assoc i (f_map f) with Some n => n | None => EmptyString end
  | None => EmptyString
  end.
Definition g_fields_map (v : flv) : list ((Z * string) * bool) :=
  map (fun ib => ((fst ib, field_name (r_factory (flv_reg v)) (fst ib)), snd ib)) (flv_value v).

(* the order in which `range` visits a map is unspecified: [shuffle ks l] inserts each element at
   the position its key names; every permutation of l is shuffle ks l for some ks (ApiValueFacts) *)
Fixpoint insert_at {A} (k : nat) (x : A) (l : list A) : list A :=
  match k, l with
  | O, _ => x :: l
  | S _, [] => [x]
  | S k', y :: r => y :: insert_at k' x r
  end.
Fixpoint shuffle {A} (ks : list nat) (l : list A) : list A :=
  match l with
  | [] => []
  | x :: r => insert_at (hd O ks) x (shuffle (tl ks) r)
  end.

Fixpoint range_pairs {K W V R} (l : list (K * W)) (body : K -> W -> V -> D (lctl V R)) (v : V) : D (lres V R) :=
  match l with
  | [] => ret (LDone v)
  | (k, w) :: rest => bind (body k w v) (fun c =>
                        match c with
                        | LCont v' => range_pairs rest body v'
                        | LBrk v' => ret (LDone v')
                        | LRet x => ret (LReturned x)
                        end)
  end.
(* for k, w := range m { body } *)
Definition range_map (K W : Type) {V R} (ord : list nat) (m : list (K * W)) (body : K -> W -> V -> D (lctl V R)) (v : V)
  : D (lres V R) := range_pairs (shuffle ord m) body v.

Fixpoint range_list (A : Type) {V R} (l : list A) (body : A -> V -> D (lctl V R)) (v : V) : D (lres V R) :=
  match l with
  | [] => ret (LDone v)
  | x :: rest => bind (body x v) (fun c =>
                   match c with
                   | LCont v' => range_list A rest body v'
                   | LBrk v' => ret (LDone v')
                   | LRet r => ret (LReturned r)
                   end)
  end.

(* sort.Slice(l, func(i, j int) bool { return l[i].Idx() < l[j].Idx() }): insertion sort by index (for
   pairwise distinct indices every correct sort yields this list) *)
Fixpoint insert_idx (x : Z * string) (l : list (Z * string)) : list (Z * string) :=
  match l with
  | [] => [x]
  | y :: r => if fst x <=? fst y then x :: l else y :: insert_idx x r
  end.
Fixpoint g_sort_by_idx (l : list (Z * string)) : list (Z * string) :=
  match l with
  | [] => []
  | x :: r => insert_idx x (g_sort_by_idx r)
  end.

(* strings.Join *)
Fixpoint g_join (sep : list byte) (l : list (list byte)) : list byte :=
  match l with
  | [] => []
  | [x] => x
  | x :: r => x ++ sep ++ g_join sep r
  end.

(* ---- registerValue.go: RegisterValues.GetList ---- *)

(* the four maps name -> value of a RegisterValues; a value is the register with what was read *)
Record regvalues := mkRV {
  rv_numbers : list (list byte * (reg * gvalue));
  rv_texts : list (list byte * (reg * gvalue));
  rv_enums : list (list byte * (reg * gvalue));
  rv_fieldlists : list (list byte * (reg * gvalue))
}.

(* ---- registerApi.go: ReadRegisterList's collector closures ----
   m[k] = v on a Go map, kept as an association list with replace-on-equal-key (iteration order is chosen by an
   oracle wherever a map is ranged over, see range_map) *)
Definition key_eqb (a b : list byte) : bool := if list_eq_dec Byte.byte_eq_dec a b then true else false.

Fixpoint g_mset (k : list byte) (v : reg * gvalue) (m : list (list byte * (reg * gvalue))) : list (list byte * (reg * gvalue)) :=
  match m with
  | [] => [(k, v)]
  | (k', v') :: r => if key_eqb k' k then (k, v) :: r else (k', v') :: g_mset k v r
  end.

(* one invocation of the collector of the value's kind: rv.XValues[v.Name()] = v *)
Definition g_put (m : regvalues) (d : reg * gvalue) : regvalues :=
  let k := name_bytes (fst d) in
  match snd d with
  | GNum _ => mkRV (g_mset k d (rv_numbers m)) (rv_texts m) (rv_enums m) (rv_fieldlists m)
  | GText _ => mkRV (rv_numbers m) (g_mset k d (rv_texts m)) (rv_enums m) (rv_fieldlists m)
  | GEnum _ => mkRV (rv_numbers m) (rv_texts m) (g_mset k d (rv_enums m)) (rv_fieldlists m)
  | GFields _ => mkRV (rv_numbers m) (rv_texts m) (rv_enums m) (g_mset k d (rv_fieldlists m))
  end.

(* the number of handler invocations made on this object so far *)
Definition p_out_len : D nat := fun s => (DVal (List.length (a_out s)), s).
(* what the collector closures did to [rv] during the invocations made since then, in their order *)
Definition p_collect_since (n0 : nat) (rv : regvalues) : D regvalues :=
  fun s => (DVal (fold_left g_put (skipn n0 (a_out s)) rv), s).

(* sort.SliceStable(list, func(i, j int) bool { return list[i].Sort() < list[j].Sort() }) *)
Definition value_key (v : reg * gvalue) : Z := r_sort (fst v).
Definition g_sort_values_stable (l : list (reg * gvalue)) : list (reg * gvalue) :=
  GV.Tables.RegList.sort_by value_key l.
