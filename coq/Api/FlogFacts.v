(* Tie T-gen for the last clause of C18: the file logger of Gen/FlogImpl.v (the translation of
   /repo/vedirectapi/fileLogger.go made on every run), once closed, has appended every line, in order and each
   followed by one line feed, after the file's previous content. *)
From GV Require Import Vedirect.DrvSem Api.FlogSem Gen.FlogImpl.
Import ListNotations.
Local Open Scope Z_scope.

Fixpoint println_all (lines : list (list byte)) : D unit :=
  match lines with
  | [] => ret tt
  | l :: r => bind (go_Println l) (fun _ => println_all r)
  end.

Definition session (path : list byte) (lines : list (list byte)) : D gerr :=
  bind (go_NewFileLogger path) (fun '(lg, e) =>
    if negb (gerr_isnil e) then ret e else bind (println_all lines) (fun _ => go_Close)).

Definition rendered (lines : list (list byte)) : list byte := concat (map (fun l => l ++ [c_nl]) lines).

Lemma println_all_buf lines : forall disk buf so,
  println_all lines (mkF disk buf true false false so) = (DVal tt, mkF disk (buf ++ rendered lines) true false false so).
Proof.
  induction lines as [|l r IH]; intros disk buf so; cbn [println_all rendered map concat].
  - rewrite app_nil_r. reflexivity.
  - unfold bind at 1. unfold go_Println. unfold bind at 1. unfold p_fprintln. cbn [f_write_fails f_disk f_buf f_open f_open_fails f_stdout].
    cbn [gerr_isnil negb]. cbv zeta. unfold ret at 1. rewrite IH. unfold rendered. rewrite <- !app_assoc. reflexivity.
Qed.

(* THE CLAUSE: without I/O faults, whatever the previous content, the path and the lines (empty lines, lines
   ending in a line feed, lines longer than the writer's buffer ...): the file afterwards is the previous content
   followed by every line with one line feed, in order; the logger printed nothing itself and reports no error *)
Theorem file_logger_appends path prev lines so :
  session path lines (mkF prev [] false false false so)
  = (DVal None, mkF (prev ++ rendered lines) [] false false false so).
Proof.
  unfold session. unfold bind at 1. unfold go_NewFileLogger. unfold bind at 1. unfold p_open_append.
  cbn [f_open_fails f_disk f_write_fails f_stdout gerr_isnil negb]. cbv zeta. unfold ret at 1. cbn [gerr_isnil negb].
  unfold bind at 1. rewrite println_all_buf. cbn [app].
  unfold go_Close. unfold bind at 1. unfold p_flush. cbn [f_write_fails f_disk f_buf f_open f_open_fails f_stdout gerr_isnil negb].
  unfold bind at 1. unfold p_close. cbn [f_disk f_buf f_open_fails f_write_fails f_stdout]. reflexivity.
Qed.

(* a file that cannot be opened: an error, no logger, nothing written *)
Theorem file_logger_open_error path prev so :
  go_NewFileLogger path (mkF prev [] false true false so) = (DVal (None, Some EOther), mkF prev [] false true false so).
Proof. reflexivity. Qed.
