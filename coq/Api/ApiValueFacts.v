(* Tie T-gen for C15 (rendering): FieldListValue.CommaString of Gen/ApiImpl.v -- the translation of
   /repo/vedirectapi/registerValue.go made on every run -- renders, for EVERY order in which `range`
   may visit the field map, exactly the model's rendering fl_render: the set fields, each once,
   by ascending index. *)
From Coq Require Import QArith Sorting.Permutation Sorting.Sorted.
From GV Require Import Vedirect.DrvSem Gen.DrvImpl Api.ApiSem Gen.ApiImpl Tables.EnumFacts.
Import ListNotations.
Local Open Scope Z_scope.

(* ---- the iteration order of a map ---- *)

Lemma insert_at_perm {A} k (x : A) l : Permutation (insert_at k x l) (x :: l).
Proof.
  revert k. induction l as [|y r IH]; intros k; destruct k; cbn [insert_at]; try reflexivity.
  rewrite IH. apply perm_swap.
Qed.

Theorem shuffle_perm {A} ks (l : list A) : Permutation (shuffle ks l) l.
Proof.
  revert ks. induction l as [|x r IH]; intros ks; cbn [shuffle]; [reflexivity|].
  rewrite insert_at_perm. now rewrite IH.
Qed.

Lemma insert_at_app {A} (a b : list A) x : insert_at (List.length a) x (a ++ b) = a ++ x :: b.
Proof. induction a as [|y r IH]; cbn [List.length insert_at app]; [destruct b; reflexivity|]. now rewrite IH. Qed.

(* every order is some shuffle: quantifying over the key lists covers every iteration order *)
Theorem shuffle_surjective {A} (l l' : list A) : Permutation l l' -> exists ks, shuffle ks l = l'.
Proof.
  revert l'. induction l as [|x r IH]; intros l' P.
  - apply Permutation_nil in P. subst. exists []. reflexivity.
  - assert (Hin : In x l') by (apply (Permutation_in x P); now left).
    apply in_split in Hin as (a & b & ->). apply Permutation_cons_app_inv in P.
    destruct (IH _ P) as (ks & E). exists (List.length a :: ks). cbn [shuffle hd tl]. rewrite E.
    apply insert_at_app.
Qed.

Lemma perm_filter {A} (g : A -> bool) l l' : Permutation l l' -> Permutation (filter g l) (filter g l').
Proof.
  induction 1 as [|x l l' P IH|x y l|l l' l'' P1 IH1 P2 IH2]; cbn [filter].
  - constructor.
  - destruct (g x); [now constructor|exact IH].
  - destruct (g x), (g y); try reflexivity. apply perm_swap.
  - now transitivity (filter g l').
Qed.

(* ---- the two loops ---- *)

Lemma collect_set l : forall acc s,
  @range_pairs (Z * string) bool (list (Z * string)) (list byte) l
    (fun v_f v_set v_setFields =>
       if negb v_set then ret (LCont v_setFields) else let v_setFields := v_setFields ++ [v_f] in ret (LCont v_setFields)) acc s
  = (DVal (LDone (acc ++ map fst (filter snd l))), s).
Proof.
  induction l as [|[f b] r IH]; intros acc s; cbn [range_pairs filter map snd].
  - rewrite app_nil_r. reflexivity.
  - unfold bind at 1. destruct b; cbn [negb]; cbv zeta; unfold ret at 1.
    + rewrite IH. cbn [map fst]. rewrite <- app_assoc. reflexivity.
    + apply IH.
Qed.

Lemma collect_names l : forall acc s,
  @range_list (Z * string) (list (list byte)) (list byte) l
    (fun v_f_1 v_strs => let v_strs := v_strs ++ [list_byte_of_string (snd v_f_1)] in ret (LCont v_strs)) acc s
  = (DVal (LDone (acc ++ map (fun f => list_byte_of_string (snd f)) l)), s).
Proof.
  induction l as [|f r IH]; intros acc s; cbn [range_list map].
  - rewrite app_nil_r. reflexivity.
  - unfold bind at 1. cbv zeta. unfold ret at 1. rewrite IH. rewrite <- app_assoc. reflexivity.
Qed.

(* ---- sorting a permutation of a strictly sorted list ---- *)

Definition idx_lt (a b : Z * string) : Prop := fst a < fst b.

Lemma insert_idx_mid x s1 s2 :
  Forall (fun y => fst y < fst x) s1 -> Forall (fun y => fst x < fst y) s2 ->
  insert_idx x (s1 ++ s2) = s1 ++ x :: s2.
Proof.
  intros H1 H2. induction s1 as [|y r IH]; cbn [app insert_idx].
  - destruct s2 as [|y r]; [reflexivity|]. cbn [insert_idx]. inversion H2; subst.
    replace (fst x <=? fst y) with true by (symmetry; apply Z.leb_le; lia). reflexivity.
  - inversion H1; subst. replace (fst x <=? fst y) with false by (symmetry; apply Z.leb_gt; lia).
    now rewrite IH.
Qed.

Lemma strongly_sorted_split x s1 s2 : StronglySorted idx_lt (s1 ++ x :: s2) ->
  Forall (fun y => fst y < fst x) s1 /\ Forall (fun y => fst x < fst y) s2 /\ StronglySorted idx_lt (s1 ++ s2).
Proof.
  induction s1 as [|y r IH]; cbn [app]; intros H.
  - inversion H; subst. repeat split; [constructor|assumption|assumption].
  - inversion H as [|? ? Hs Hf]; subst. destruct (IH Hs) as (A & B & C). repeat split.
    + constructor; [|exact A]. rewrite Forall_forall in Hf. apply (Hf x). apply in_or_app. right. now left.
    + exact B.
    + constructor; [exact C|]. rewrite Forall_forall in *. intros z Hz. apply Hf.
      apply in_app_or in Hz as [Hz|Hz]; apply in_or_app; [now left|right; now right].
Qed.

Theorem sort_of_permutation l : forall S, StronglySorted idx_lt S -> Permutation l S -> g_sort_by_idx l = S.
Proof.
  induction l as [|x r IH]; intros S HS P.
  - apply Permutation_nil in P. now subst.
  - assert (Hin : In x S) by (apply (Permutation_in x P); now left).
    apply in_split in Hin as (s1 & s2 & ->). apply Permutation_cons_app_inv in P.
    destruct (strongly_sorted_split x s1 s2 HS) as (A & B & C).
    cbn [g_sort_by_idx]. rewrite (IH _ C P). now apply insert_idx_mid.
Qed.

(* ---- strings ---- *)

Lemma list_byte_of_string_app a b : list_byte_of_string (a ++ b) = list_byte_of_string a ++ list_byte_of_string b.
Proof.
  unfold list_byte_of_string. induction a as [|c a IH]; cbn [String.append list_ascii_of_string map app]; [reflexivity|].
  now rewrite IH.
Qed.

Lemma join_bytes names :
  g_join (map zb [44; 32]) (map list_byte_of_string names) = list_byte_of_string (join_names names).
Proof.
  induction names as [|a r IH]; [reflexivity|]. destruct r as [|b r']; [reflexivity|].
  transitivity (list_byte_of_string a ++ map zb [44; 32] ++ g_join (map zb [44; 32]) (map list_byte_of_string (b :: r'))).
  { reflexivity. }
  rewrite IH. change (join_names (a :: b :: r')) with (a ++ ", " ++ join_names (b :: r'))%string.
  rewrite !list_byte_of_string_app. reflexivity.
Qed.

(* ---- the field map of a decoded value ---- *)

Lemma keys_increasing_sorted : forall (m : list (Z * string)) p, keys_increasing p m = true ->
  StronglySorted idx_lt m /\ Forall (fun y => p < fst y) m.
Proof.
  induction m as [|[k n] r IH]; intros p H; [split; constructor|].
  cbn [keys_increasing] in H. apply andb_prop in H as [H1 H2]. apply Z.ltb_lt in H1.
  destruct (IH k H2) as [S F]. split.
  - constructor; [exact S|]. exact F.
  - constructor; [exact H1|]. rewrite Forall_forall in *. intros y Hy. specialize (F y Hy). cbn [fst] in *. lia.
Qed.

Lemma assoc_of_sorted (m : list (Z * string)) k n : StronglySorted idx_lt m -> In (k, n) m -> assoc k m = Some n.
Proof.
  induction m as [|[k' n'] r IH]; intros S Hin; [contradiction|]. cbn [assoc].
  inversion S as [|? ? Sr Fr]; subst. destruct Hin as [E|Hin].
  - injection E as -> ->. now rewrite Z.eqb_refl.
  - rewrite Forall_forall in Fr. specialize (Fr _ Hin). unfold idx_lt in Fr. cbn [fst] in Fr.
    replace (k =? k') with false by (symmetry; apply Z.eqb_neq; lia). now apply IH.
Qed.

Lemma filter_sorted (m : list (Z * string)) g : StronglySorted idx_lt m -> StronglySorted idx_lt (filter g m).
Proof.
  induction m as [|x r IH]; intros S; [constructor|]. inversion S as [|? ? Sr Fr]; subst. cbn [filter].
  destruct (g x); [|now apply IH]. constructor; [now apply IH|].
  rewrite Forall_forall in *. intros y Hy. apply filter_In in Hy as [Hy _]. now apply Fr.
Qed.

Lemma set_names_filter (m : list (Z * string)) raw :
  set_names m (map (fun kn => Z.testbit raw (fst kn)) m) = map snd (filter (fun kn => Z.testbit raw (fst kn)) m).
Proof.
  unfold set_names. induction m as [|[k n] r IH]; [reflexivity|].
  cbn [map combine filter fst snd]. destruct (Z.testbit raw k); cbn [map fst snd]; now rewrite IH.
Qed.

(* THE THEOREM: for every field-list type of the tables, every raw value and EVERY iteration order of
   the map, the rendering is the model's -- the names of exactly the set fields, each once, by ascending
   index, joined by ", "; in particular it is the same every time it is produced *)
Theorem go_CommaString_spec f r raw ord s : In f obs_fieldlists -> fl_of (r_factory r) = Some f ->
  go_CommaString (mkFlv r (fl_fields (f_map f) raw)) ord s
  = (DVal (list_byte_of_string (fl_render (f_map f) raw)), s).
Proof.
  intros Hin Hf.
  pose proof fl_tables_ok as T. rewrite forallb_forall in T. specialize (T f Hin). apply andb_prop in T as [T _].
  destruct (keys_increasing_sorted _ _ T) as [Sm _].
  unfold go_CommaString. cbv zeta.
  (* the field map: every documented field with its name and its bit *)
  assert (Em : g_fields_map (mkFlv r (fl_fields (f_map f) raw))
               = map (fun kn => (kn, Z.testbit raw (fst kn))) (f_map f)).
  { unfold g_fields_map, fl_fields. cbn [flv_reg flv_value]. rewrite map_map. apply map_ext_in.
    intros [k n] Hk. cbn [fst snd]. unfold field_name. rewrite Hf. now rewrite (assoc_of_sorted _ k n Sm Hk). }
  rewrite Em. unfold range_map. unfold bind at 1. rewrite collect_set. cbn [app].
  set (S := filter (fun kn => Z.testbit raw (fst kn)) (f_map f)).
  assert (P : Permutation (map fst (filter snd (shuffle ord (map (fun kn => (kn, Z.testbit raw (fst kn))) (f_map f))))) S).
  { transitivity (map fst (filter snd (map (fun kn : Z * string => (kn, Z.testbit raw (fst kn))) (f_map f)))).
    - apply Permutation_map, perm_filter, shuffle_perm.
    - subst S. clear. induction (f_map f) as [|kn m IH]; [reflexivity|].
      cbn [map filter snd fst]. destruct (Z.testbit raw (fst kn)); cbn [map fst]; [constructor|]; exact IH. }
  rewrite (sort_of_permutation _ S (filter_sorted _ _ Sm) P).
  unfold bind at 1. rewrite collect_names. cbn [app]. unfold ret.
  rewrite <- (map_map snd list_byte_of_string). rewrite join_bytes.
  unfold fl_render, render_bits. rewrite set_names_filter. reflexivity.
Qed.

(* ... hence identical every time it is produced, whatever the map order *)
Corollary go_CommaString_deterministic f r raw ord1 ord2 s : In f obs_fieldlists -> fl_of (r_factory r) = Some f ->
  go_CommaString (mkFlv r (fl_fields (f_map f) raw)) ord1 s = go_CommaString (mkFlv r (fl_fields (f_map f) raw)) ord2 s.
Proof. intros H1 H2. now rewrite !go_CommaString_spec. Qed.

(* ---- RegisterValues.GetList (C20: one line per register, ordered by non-decreasing sort key) ---- *)

From GV Require Tables.RegList Tables.RegListFacts.

Lemma collect_values (l : list (list byte * (reg * gvalue))) : forall acc s,
  @range_pairs (list byte) (reg * gvalue) (list (reg * gvalue)) (list (reg * gvalue)) l
    (fun _ v_v v_list => let v_list := v_list ++ [v_v] in ret (LCont v_list)) acc s
  = (DVal (LDone (acc ++ map snd l)), s).
Proof.
  induction l as [|[k v] r IH]; intros acc s; cbn [range_pairs map snd].
  - rewrite app_nil_r. reflexivity.
  - unfold bind at 1. cbv zeta. unfold ret at 1. rewrite IH. rewrite <- app_assoc. reflexivity.
Qed.

Definition all_values (rv : regvalues) : list (reg * gvalue) :=
  map snd (rv_numbers rv) ++ map snd (rv_texts rv) ++ map snd (rv_enums rv) ++ map snd (rv_fieldlists rv).

(* for EVERY order in which the four maps are visited the list returned holds every value exactly once and
   is ordered by non-decreasing sort key (the order among equal keys is the order of the visit) *)
Theorem go_GetList_spec rv o1 o2 o3 o4 s :
  exists l, go_GetList rv o1 o2 o3 o4 s = (DVal l, s) /\
            Permutation (all_values rv) l /\
            Sorted (GV.Tables.RegListFacts.le_by value_key) l.
Proof.
  unfold go_GetList. cbv zeta. unfold range_map.
  unfold bind at 1. rewrite collect_values. cbn [app].
  unfold bind at 1. rewrite collect_values.
  unfold bind at 1. rewrite collect_values.
  unfold bind at 1. rewrite collect_values.
  eexists. split; [reflexivity|]. split.
  - unfold g_sort_values_stable. etransitivity; [|apply GV.Tables.RegListFacts.sort_by_perm].
    unfold all_values. rewrite <- !app_assoc.
    repeat apply Permutation_app; apply Permutation_map; symmetry; apply shuffle_perm.
  - apply GV.Tables.RegListFacts.sort_by_sorted.
Qed.
