(* C10, map-returning variants: ReadRegisterList / ReadAllRegisters.  The four collector
   closures of registerApi.go:160-188 fill one Go map per value kind, keyed by register name
   (rv.NumberValues[v.Name()] = v ...).  A Go map is modelled as an association list with
   replace-on-equal-key; iteration order is not observable (the harness sorts).  No proofs
   here (MapsFacts.v). *)
From GV Require Import Base.Bytes Vedirect.Frame Vedirect.Port Vedirect.Driver.
From GV Require Import Tables.ObsTypes Gen.Obs Api.Api.
From Coq Require Import String.
Local Open Scope Z_scope.

Definition smap := list (string * rvalue).

(* m[k] = v *)
Fixpoint m_set (k : string) (v : rvalue) (m : smap) : smap :=
  match m with
  | [] => [(k, v)]
  | (k', v') :: r => if String.eqb k' k then (k, v) :: r else (k', v') :: m_set k v r
  end.

Fixpoint m_get (k : string) (m : smap) : option rvalue :=
  match m with
  | [] => None
  | (k', v') :: r => if String.eqb k' k then Some v' else m_get k r
  end.

Inductive vkind := KNum | KText | KEnum | KFields.

Definition kind_of_value (v : rvalue) : vkind :=
  match v with RVNum _ _ => KNum | RVText _ => KText | RVEnum _ _ => KEnum | RVFields _ => KFields end.

Definition vkind_eqb (a b : vkind) : bool :=
  match a, b with KNum, KNum | KText, KText | KEnum, KEnum | KFields, KFields => true | _, _ => false end.

Record regvalues := mkRV { rv_num : smap; rv_text : smap; rv_enum : smap; rv_fl : smap }.

Definition rv_empty : regvalues := mkRV [] [] [] [].

Definition rv_map (k : vkind) (m : regvalues) : smap :=
  match k with KNum => rv_num m | KText => rv_text m | KEnum => rv_enum m | KFields => rv_fl m end.

(* one handler invocation *)
Definition rv_put (m : regvalues) (d : reg * rvalue) : regvalues :=
  let n := r_name (fst d) in
  match snd d with
  | RVNum _ _ => mkRV (m_set n (snd d) (rv_num m)) (rv_text m) (rv_enum m) (rv_fl m)
  | RVText _ => mkRV (rv_num m) (m_set n (snd d) (rv_text m)) (rv_enum m) (rv_fl m)
  | RVEnum _ _ => mkRV (rv_num m) (rv_text m) (m_set n (snd d) (rv_enum m)) (rv_fl m)
  | RVFields _ => mkRV (rv_num m) (rv_text m) (rv_enum m) (m_set n (snd d) (rv_fl m))
  end.

Definition collect (delivered : list (reg * rvalue)) : regvalues := fold_left rv_put delivered rv_empty.

(* ReadRegisterList: all four handlers are set; the maps are returned together with the
   stream's error *)
Definition read_register_list (c : cfg) (rl : reglist) (cancel_after : option nat) (s : vdstate)
  : stream_end * regvalues * vdstate :=
  let '(e, delivered, s') := stream_register_list c all_handlers rl cancel_after s in
  (e, collect delivered, s').
