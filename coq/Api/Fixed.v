(* C20: what fmt's %f prints for the float64 of a number register: the exact binary value,
   rounded half-even to six decimals (strconv's 'f' format is correctly rounded).  The result
   is the sign and the magnitude in millionths; the runner renders it as digits. *)
From Coq Require Import ZArith.
From Flocq Require Import Core IEEE754.BinarySingleNaN IEEE754.Binary IEEE754.Bits.
From GV Require Import Tables.ObsTypes Api.Float.
Local Open Scope Z_scope.

(* num / den rounded to the nearest integer, ties to even (den > 0) *)
Definition rhe (num den : Z) : Z :=
  let q := num / den in
  let r := num mod den in
  if (den <? 2 * r) || ((den =? 2 * r) && Z.odd q) then q + 1 else q.

Definition fixed6_of_f64 (x : binary64) : option (bool * Z) :=
  match x with
  | B754_zero _ _ s => Some (s, 0)
  | B754_finite _ _ s m e _ =>
      let num := if 0 <=? e then Zpos m * 2 ^ e * 1000000 else Zpos m * 1000000 in
      let den := if 0 <=? e then 1 else 2 ^ (- e) in
      Some (s, rhe num den)
  | _ => None                                    (* infinities and NaN: never for a register value (C09_number_f64) *)
  end.

Definition number_value_fixed6 (r : reg) (raw : Z) : option (bool * Z) := fixed6_of_f64 (number_value_f64 r raw).
