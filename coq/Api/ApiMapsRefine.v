(* T-gen for ReadRegisterList (registerApi.go:160-188, C10's map-returning variant): the translation
   Gen/ApiImpl.v go_ReadRegisterList -- the stream with the four collector closures, then the maps they
   filled -- refines the hand model Api/Maps.v read_register_list: same end of the stream, same driver
   state, and per value kind the same map from register names to values (Go maps as association lists
   with replace-on-equal-key on both sides). *)
From Coq Require Import QArith String.
From GV Require Import Base.Bytes Vedirect.Frame Vedirect.Port Vedirect.Driver Tables.ObsTypes.
From GV Require Import Vedirect.DrvSem Gen.DrvImpl Vedirect.DrvRefine Api.Api Api.ApiSem Gen.ApiImpl Api.ApiRefine Api.ApiRefineTables.
From GV Require Api.Maps.
Import ListNotations.
Local Open Scope Z_scope.

(* one Go map of the translation against one of the model: same keys in the same positions, same values *)
Definition smap_rel (g : list (list byte * (reg * gvalue))) (m : Maps.smap) : Prop :=
  map (fun kv => (fst kv, snd (snd kv))) g = map (fun kv => (list_byte_of_string (fst kv), gvalue_of (snd kv))) m.

Definition maps_rel (G : regvalues) (M : Maps.regvalues) : Prop :=
  smap_rel (rv_numbers G) (Maps.rv_num M) /\ smap_rel (rv_texts G) (Maps.rv_text M) /\
  smap_rel (rv_enums G) (Maps.rv_enum M) /\ smap_rel (rv_fieldlists G) (Maps.rv_fl M).

Lemma bytes_of_string_inj a b : list_byte_of_string a = list_byte_of_string b -> a = b.
Proof.
  intros E. rewrite <- (string_of_list_byte_of_string a), <- (string_of_list_byte_of_string b). now rewrite E.
Qed.

Lemma key_eqb_spec a b : key_eqb (list_byte_of_string a) (list_byte_of_string b) = String.eqb a b.
Proof.
  unfold key_eqb. destruct (list_eq_dec Byte.byte_eq_dec _ _) as [E|N].
  - apply bytes_of_string_inj in E. subst. symmetry. apply String.eqb_refl.
  - destruct (String.eqb_spec a b) as [->|]; [now elim N | reflexivity].
Qed.

Lemma mset_rel g m k r v : smap_rel g m ->
  smap_rel (g_mset (list_byte_of_string k) (r, gvalue_of v) g) (Maps.m_set k v m).
Proof.
  unfold smap_rel. revert m. induction g as [|[k1 [r1 v1]] g IH]; intros m H; destruct m as [|[k2 v2] m]; cbn [map fst snd] in H; try discriminate.
  - reflexivity.
  - injection H as Hk Hv Ht. subst k1 v1. cbn [g_mset Maps.m_set]. rewrite key_eqb_spec.
    destruct (String.eqb k2 k).
    + cbn. now rewrite Ht.
    + cbn. f_equal. now apply IH.
Qed.

Lemma put_rel G M d : maps_rel G M -> maps_rel (g_put G (gpair d)) (Maps.rv_put M d).
Proof.
  intros (Hn & Ht & He & Hf). destruct d as [r v]. unfold g_put, Maps.rv_put, gpair, name_bytes. cbn [fst snd].
  destruct v as [q n|t|i n|fs]; cbn [gvalue_of]; unfold maps_rel; cbn [rv_numbers rv_texts rv_enums rv_fieldlists Maps.rv_num Maps.rv_text Maps.rv_enum Maps.rv_fl];
    repeat split; try assumption.
  - exact (mset_rel _ _ (r_name r) r (RVNum q n) Hn).
  - exact (mset_rel _ _ (r_name r) r (RVText t) Ht).
  - exact (mset_rel _ _ (r_name r) r (RVEnum i n) He).
  - exact (mset_rel _ _ (r_name r) r (RVFields fs) Hf).
Qed.

Lemma collect_rel acc : forall G M, maps_rel G M ->
  maps_rel (fold_left g_put (map gpair acc) G) (fold_left Maps.rv_put acc M).
Proof.
  induction acc as [|d acc IH]; intros G M H; cbn [map fold_left]; [exact H|]. apply IH. now apply put_rel.
Qed.

Lemma empty_rel : maps_rel (mkRV [] [] [] []) Maps.rv_empty.
Proof. repeat split. Qed.

(* the result of the call against the model's: end of the stream, maps, driver state *)
Definition readlist_rel (out : dout (regvalues * gerr) * ast) (m : stream_end * Maps.regvalues * vdstate) : Prop :=
  let '(e, M, v') := m in
  match e with
  | SDone => exists G, fst out = DVal (G, None) /\ maps_rel G M /\ a_d (snd out) = mkD v' false
  | SError er => exists G, fst out = DVal (G, Some er) /\ maps_rel G M /\ a_d (snd out) = mkD v' false
  | SCancelled => exists G, fst out = DVal (G, Some ECtxDone) /\ maps_rel G M /\ a_d (snd out) = mkD v' false
  | SPanic => fst out = DPanic
  | SFuel => fst out = DFuel
  end.

Theorem go_ReadRegisterList_refines c rl cn v : reglist_ok rl ->
  readlist_rel (go_ReadRegisterList c tt rl (mkA (mkD v false) [] cn)) (Maps.read_register_list c rl cn v).
Proof.
  intros Hok. unfold go_ReadRegisterList, Maps.read_register_list. cbv zeta.
  pose proof (go_StreamRegisterList_refines c rl all_handlers cn v Hok) as R.
  change (mkHandlers true true true true) with all_handlers.
  destruct (stream_register_list c all_handlers rl cn v) as [[e acc] v'].
  unfold bind at 1. unfold p_out_len at 1. cbn [a_out List.length].
  unfold bind at 1.
  destruct (go_StreamRegisterList c tt rl all_handlers (mkA (mkD v false) [] cn)) as [og sg] eqn:EG.
  unfold run_rel in R.
  destruct e.
  - injection R as -> ->. unfold bind, p_collect_since, ret. cbn [a_out skipn fst snd a_d].
    eexists. split; [reflexivity|]. split; [|reflexivity]. apply collect_rel, empty_rel.
  - injection R as -> ->. unfold bind, p_collect_since, ret. cbn [a_out skipn fst snd a_d].
    eexists. split; [reflexivity|]. split; [|reflexivity]. apply collect_rel, empty_rel.
  - injection R as -> ->. unfold bind, p_collect_since, ret. cbn [a_out skipn fst snd a_d].
    eexists. split; [reflexivity|]. split; [|reflexivity]. apply collect_rel, empty_rel.
  - cbn [fst] in R. subst og. reflexivity.
  - cbn [fst] in R. subst og. reflexivity.
Qed.

(* the maps hold exactly what the handlers of StreamRegisterList would have been given: per kind, the last value
   delivered under each name, at the position of the name's first delivery *)
Corollary go_ReadRegisterList_collects c rl cn v G e s' : reglist_ok rl ->
  go_ReadRegisterList c tt rl (mkA (mkD v false) [] cn) = (DVal (G, e), s') ->
  exists acc, G = fold_left g_put (map gpair acc) (mkRV [] [] [] []) /\ a_out s' = map gpair acc /\
              snd (fst (stream_register_list c all_handlers rl cn v)) = acc.
Proof.
  intros Hok. unfold go_ReadRegisterList. cbv zeta.
  pose proof (go_StreamRegisterList_refines c rl all_handlers cn v Hok) as R.
  change (mkHandlers true true true true) with all_handlers.
  destruct (stream_register_list c all_handlers rl cn v) as [[e0 acc] v'].
  unfold bind at 1. unfold p_out_len at 1. cbn [a_out List.length]. unfold bind at 1.
  destruct (go_StreamRegisterList c tt rl all_handlers (mkA (mkD v false) [] cn)) as [og sg] eqn:EG.
  unfold run_rel in R. intros H.
  destruct e0.
  - injection R as -> ->. unfold bind, p_collect_since, ret in H. cbn [a_out skipn] in H. injection H as <- _ <-. exists acc. now repeat split.
  - injection R as -> ->. unfold bind, p_collect_since, ret in H. cbn [a_out skipn] in H. injection H as <- _ <-. exists acc. now repeat split.
  - injection R as -> ->. unfold bind, p_collect_since, ret in H. cbn [a_out skipn] in H. injection H as <- _ <-. exists acc. now repeat split.
  - cbn [fst] in R. subst og. discriminate H.
  - cbn [fst] in R. subst og. discriminate H.
Qed.

(* ... on the register list of every product id (the hypothesis is closed over the regenerated tables) *)
Theorem go_read_product_lists c id cn v :
  readlist_rel (go_ReadRegisterList c tt (snd (obs_reglist id)) (mkA (mkD v false) [] cn))
               (Maps.read_register_list c (snd (obs_reglist id)) cn v).
Proof. apply go_ReadRegisterList_refines, product_lists_ok. Qed.
