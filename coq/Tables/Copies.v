(* C17: lookup data handed out as private copies.  A model with explicit object
   identities: the library owns a master value; every lookup allocates a fresh object
   holding a copy; callers can only address objects.  (What a pure model cannot express is
   Go's aliasing itself — that part of C17 is carried by the correspondence run.) *)
From Coq Require Import List ZArith Lia.
Import ListNotations.

Section Copies.
  Context {data : Type}.

  Record lib := mkLib {
    master : data;                      (* the library's own table *)
    heap : list data                    (* objects handed out so far; the index is the identity *)
  }.

  Inductive cop :=
  | Lookup                                         (* a lookup function is called *)
  | Mutate (obj : nat) (f : data -> data).         (* a caller does anything to an object it holds *)

  Fixpoint update (l : list data) (i : nat) (f : data -> data) : list data :=
    match l, i with
    | [], _ => []
    | x :: r, O => f x :: r
    | x :: r, S j => x :: update r j f
    end.

  (* one step: the state after it and, for a lookup, the value returned *)
  Definition cstep (s : lib) (o : cop) : lib * option data :=
    match o with
    | Lookup => (mkLib (master s) (heap s ++ [master s]), Some (master s))
    | Mutate i f => (mkLib (master s) (update (heap s) i f), None)
    end.

  Fixpoint crun (s : lib) (ops : list cop) : list (option data) :=
    match ops with
    | [] => []
    | o :: r => let '(s', out) := cstep s o in out :: crun s' r
    end.

  Lemma cstep_master s o : master (fst (cstep s o)) = master s.
  Proof. destruct o; reflexivity. Qed.

  (* whatever callers do, every later lookup returns the original data *)
  Theorem copies_private (s : lib) (ops : list cop) :
    forall out, In (Some out) (crun s ops) -> out = master s.
  Proof.
    revert s. induction ops as [|o ops IH]; intros s out H; [destruct H|].
    cbn [crun] in H. pose proof (cstep_master s o) as M.
    destruct (cstep s o) as [s' r] eqn:E. cbn [fst] in M.
    destruct H as [H|H].
    - destruct o; cbn [cstep] in E; injection E as _ <-; [now injection H as <-|discriminate].
    - rewrite <- M. now apply IH.
  Qed.
End Copies.

(* the discipline is not vacuous: a library that hands out its own table is refuted *)
Example aliasing_library_is_refuted :
  let shared_step (m : nat) (f : nat -> nat) := f m in
  shared_step 1 (fun _ => 0) <> 1.
Proof. cbn. discriminate. Qed.
