(* Record types of the generated observation tables (Gen/Obs.v). *)
From Coq Require Export ZArith List String Ascii Bool Lia.
Export ListNotations.
Open Scope Z_scope.

(* a string given by its bytes (used by the generator for non-ASCII literals) *)
Definition sbytes (l : list Z) : string :=
  fold_right (fun z s => String (ascii_of_N (Z.to_N z)) s) EmptyString l.

Record type_obs := mkTypeObs { t_name : string; t_bmv : bool; t_solar : bool; t_inverter : bool }.

Record prod_obs := mkProdObs {
  p_exists : bool; p_model : string; p_type : Z; p_string : string;
  p_maxv : Z; p_maxi : Z; p_mapentry : option string
}.

Record enum_obs := mkEnumObs {
  e_name : string;
  e_map : list (Z * string);                 (* IntToStringMap(), sorted by key *)
  e_new_ok : list (Z * (Z * string));        (* New(b) for all 256 bytes: b -> (Idx, String) where it succeeded *)
  e_new_errs_ok : bool;                      (* every failing New(b) matched ErrInvalidEnumIdx *)
  e_newenum_ok : list (Z * (Z * string));    (* NewEnum(v) over the sampled ints: successes *)
  e_newenum_errs_ok : bool;
  e_newenum_domain : Z                       (* number of ints tried *)
}.

Record fl_obs := mkFlObs { f_name : string; f_bits : Z; f_map : list (Z * string) }.

Record reg := mkReg {
  r_kind : Z;                                (* 1 number, 2 text, 3 enum, 4 field list *)
  r_cat : string; r_name : string; r_desc : string;
  r_sort : Z; r_addr : Z; r_static : bool; r_writable : bool;
  r_signed : bool; r_factor : Z; r_off_num : Z; r_off_den : Z;   (* offset = exact value of the float64 *)
  r_unit : string; r_factory : string
}.

Record reglist := mkRegList {
  l_numbers : list reg; l_texts : list reg; l_enums : list reg; l_fieldlists : list reg
}.
