(* C12: each product gets exactly the register list of its product class.
   Specification written from the property text; checked against the complete observation
   of GetRegisterListByProduct on all 65536 ids and of the exported family lists. *)
From GV Require Export Tables.ObsTypes Tables.Lookup Gen.Obs Tables.Product Tables.Enum.

Inductive pclass := ClsBMV | ClsSmartBMV | ClsMPPT | ClsMPPTLoad | ClsPhoenix | ClsUnsupported.

(* the current rating of a charger: the second number of its model designation ("75|15",
   "100|20 48V"); the accessor MaxPanelCurrent is C13's subject and is not consulted here, so
   that a wrong accessor cannot make a wrong list look right *)
Definition rating (o : prod_obs) : Z :=
  match parse_panel (p_model o) with Some (_, i) => i | None => p_maxi o end.

(* product class from type and current rating (type numbers as in veproduct.Type); a known
   product is one the exported string map lists (the map is built from the product table's
   keys), so that a lookup that invents products cannot vouch for its own register lists *)
Definition class_of (o : prod_obs) : pclass :=
  if negb (p_exists o) || (match p_mapentry o with Some _ => false | None => true end) then ClsUnsupported
  else if p_type o =? 1 then ClsBMV                                  (* BMV *)
  else if (p_type o =? 2) || (p_type o =? 10) then ClsSmartBMV       (* BMV Smart, SmartShunt *)
  else if (p_type o =? 3) || (p_type o =? 4) then                    (* BlueSolar / SmartSolar MPPT *)
    (if (rating o =? 10) || (rating o =? 15) || (rating o =? 20) then ClsMPPTLoad else ClsMPPT)
  else if (p_type o =? 7) || (p_type o =? 8) then ClsPhoenix         (* Phoenix Inverter (Smart) *)
  else ClsUnsupported.                                               (* VE.Can MPPT, IP43 charger, unknown *)

Definition keep (ex : list string) (r : reg) : bool := negb (string_eqb_list ex (r_name r)).

Definition filter_names (ex : list string) (rl : reglist) : reglist :=
  mkRegList (filter (keep ex) (l_numbers rl)) (filter (keep ex) (l_texts rl))
            (filter (keep ex) (l_enums rl)) (filter (keep ex) (l_fieldlists rl)).

Definition all_regs (rl : reglist) : list reg :=
  l_numbers rl ++ l_texts rl ++ l_enums rl ++ l_fieldlists rl.

Definition empty_reglist : reglist := mkRegList [] [] [] [].

Definition bmv_exclusions : list string :=
  ["AuxVoltage"; "BatteryTemperature"; "MidPointVoltage"; "MidPointVoltageDeviation";
   "AuxVoltageMinimum"; "AuxVoltageMaximum"]%string.
Definition smart_bmv_exclusions : list string := ["ProductRevision"; "Description"]%string.

Definition expected_list (c : pclass) : reglist :=
  match c with
  | ClsBMV => filter_names bmv_exclusions obs_family_bmv
  | ClsSmartBMV => filter_names smart_bmv_exclusions obs_family_bmv
  | ClsMPPT => filter_names (map r_name (all_regs obs_family_solar_load)) obs_family_solar
  | ClsMPPTLoad => filter_names ["PanelCurrent"%string] obs_family_solar
  | ClsPhoenix => obs_family_inverter
  | ClsUnsupported => empty_reglist
  end.

Definition reg_eqb (a b : reg) : bool :=
  (r_kind a =? r_kind b) && String.eqb (r_cat a) (r_cat b) && String.eqb (r_name a) (r_name b) &&
  String.eqb (r_desc a) (r_desc b) && (r_sort a =? r_sort b) && (r_addr a =? r_addr b) &&
  Bool.eqb (r_static a) (r_static b) && Bool.eqb (r_writable a) (r_writable b) &&
  Bool.eqb (r_signed a) (r_signed b) && (r_factor a =? r_factor b) &&
  (r_off_num a =? r_off_num b) && (r_off_den a =? r_off_den b) &&
  String.eqb (r_unit a) (r_unit b) && String.eqb (r_factory a) (r_factory b).

Definition reglist_eqb (a b : reglist) : bool :=
  list_eqb reg_eqb (l_numbers a) (l_numbers b) && list_eqb reg_eqb (l_texts a) (l_texts b) &&
  list_eqb reg_eqb (l_enums a) (l_enums b) && list_eqb reg_eqb (l_fieldlists a) (l_fieldlists b).

(* observed result for an id: (error class, list index) read from the tables *)
Definition obs_reglist_at (ei : Z * Z) : Z * reglist :=
  (fst ei, lookup empty_reglist obs_reglists (snd ei)).

Definition obs_reglist (id : Z) : Z * reglist :=
  obs_reglist_at (lookup obs_reglist_default obs_reglist_of id).

Definition c12_by_class (o : prod_obs) (r : Z * reglist) : bool :=
  match class_of o with
  | ClsUnsupported => (fst r =? 1) && reglist_eqb (snd r) empty_reglist     (* ErrUnsupportedType, empty *)
  | c => (fst r =? 0) && reglist_eqb (snd r) (expected_list c)
  end.

Fixpoint nodup_strings (l : list string) : bool :=
  match l with [] => true | x :: r => negb (string_eqb_list r x) && nodup_strings r end.
Fixpoint nodup_Z (l : list Z) : bool :=
  match l with [] => true | x :: r => negb (existsb (Z.eqb x) r) && nodup_Z r end.

Definition factory_known (r : reg) : bool :=
  if r_kind r =? 3 then existsb (fun e => String.eqb (e_name e) (r_factory r)) obs_enums
  else if r_kind r =? 4 then existsb (fun f => String.eqb (f_name f) (r_factory r)) obs_fieldlists
  else true.

Definition c12_wellformed (rl : reglist) : bool :=
  nodup_strings (map r_name (all_regs rl)) && nodup_Z (map r_addr (all_regs rl)) &&
  forallb (fun r => (r_kind r =? 1) && negb (r_factor r =? 0) && negb (r_off_den r =? 0)) (l_numbers rl) &&
  forallb (fun r => r_kind r =? 2) (l_texts rl) &&
  forallb (fun r => (r_kind r =? 3) && factory_known r) (l_enums rl) &&
  forallb (fun r => (r_kind r =? 4) && factory_known r) (l_fieldlists rl).

Definition c12_ok_at (o : prod_obs) (ei : Z * Z) : bool :=
  c12_by_class o (obs_reglist_at ei) && c12_wellformed (snd (obs_reglist_at ei)).

Definition c12_ok (id : Z) : bool :=
  c12_ok_at (obs_product id) (lookup obs_reglist_default obs_reglist_of id).

