(* C17, tie T-gen: an alias IR for the functions that hand out maps and slices, the check
   "what is returned is freshly allocated and stored nowhere else", and the semantics the
   check is proved sound against (AliasFacts.v).  `gvgen alias` transcribes every
   container-returning function of veproduct and veconst into this IR on every run
   (Gen/AliasGen.v); control flow is flattened: the semantics below executes the statements
   of a body in any order, any number of times, so it covers every loop and branch structure
   the flattened statements can have come from. *)
From Coq Require Export List String Bool Arith Lia.
Export ListNotations.
Local Open Scope string_scope.

Inductive aexpr :=
| AMake                         (* make / composite literal / nil / maps.Clone / slices.Clone *)
| AVar (x : string)             (* a local variable, parameter or receiver *)
| AGlobal (g : string)          (* a package-level variable *)
| ACall (f : string)            (* a container-returning function of the same package *)
| AOther.                       (* anything the translator does not classify *)

Inductive astmt :=
| SAssign (x : string) (e : aexpr)          (* local x := e   (references only; scalars are omitted) *)
| SStoreGlobal (g : string) (e : aexpr)     (* global = e *)
| SWriteElem (x : string)                   (* x[k] = scalar for a local x *)
| SWriteGlobalElem (g : string)             (* g[k] = scalar, delete(g, k), copy(g, ..) *)
| SReturn (e : aexpr)
| SOpaque (why : string).                   (* a statement that may move a reference in a way the IR does not express *)

Record afun := mkAfun { af_name : string; af_body : list astmt }.

(* ---- the check ---- *)

Definition smem (x : string) (l : list string) : bool := existsb (String.eqb x) l.

(* expressions that evaluate to an object allocated during this call; [fresh] = the
   functions already known to return fresh objects *)
Definition expr_allocates (fresh : list string) (e : aexpr) : bool :=
  match e with AMake => true | ACall f => smem f fresh | _ => false end.

(* every assignment to a local gives it a freshly allocated object (or itself: append) *)
Definition assign_ok (fresh : list string) (s : astmt) : bool :=
  match s with
  | SAssign x e => expr_allocates fresh e || match e with AVar y => String.eqb x y | _ => false end
  | _ => true
  end.

Definition assigned (body : list astmt) (x : string) : bool :=
  existsb (fun s => match s with SAssign y _ => String.eqb x y | _ => false end) body.

Definition stmt_ok (fresh : list string) (body : list astmt) (s : astmt) : bool :=
  match s with
  | SAssign _ _ => assign_ok fresh s
  | SStoreGlobal _ _ => false
  | SWriteElem x => assigned body x           (* writes go to objects of this call only *)
  | SWriteGlobalElem _ => false
  | SReturn e => expr_allocates fresh e || match e with AVar x => assigned body x | _ => false end
  | SOpaque _ => false
  end.

Definition fun_ok (fresh : list string) (f : afun) : bool := forallb (stmt_ok fresh (af_body f)) (af_body f).

(* least fixed point by rounds: round k+1 accepts the functions that are fine given the
   functions accepted in round k (Fields calls Decode) *)
Fixpoint fresh_after (rounds : nat) (fs : list afun) : list string :=
  match rounds with
  | O => []
  | S k => map af_name (filter (fun_ok (fresh_after k fs)) fs)
  end.

(* every function is accepted given the functions accepted after |fs| rounds *)
Definition fresh_set (fs : list afun) : list string := fresh_after (List.length fs) fs.
Definition all_fresh (fs : list afun) : bool := forallb (fun_ok (fresh_set fs)) fs.

(* ---- semantics ---- *)

(* Objects are numbered in allocation order.  [owned] = objects reachable from the library's
   package-level variables; [n] = the next unused number.  A call starts with every existing
   object below its [start]; the library's objects and the objects held by callers are all
   below it. *)
Record astate := mkAs {
  locals : list (string * nat);          (* local variable -> object *)
  globals : list (string * nat);         (* package-level variable -> object *)
  written : list nat;                    (* objects whose contents this call changed *)
  next : nat;
  returned : list nat                    (* objects returned so far by this (flattened) call *)
}.

Fixpoint lookup_s (x : string) (l : list (string * nat)) : option nat :=
  match l with
  | [] => None
  | (y, v) :: r => if String.eqb x y then Some v else lookup_s x r
  end.

(* what a call of f yields: an object and the new allocation counter.  For the functions in
   [fresh] the object was allocated by that call (assumption on the oracle, discharged for the
   real functions by induction over the rounds); for other functions anything. *)
Definition call_oracle := string -> nat -> nat * nat.

Definition oracle_ok (fresh : list string) (o : call_oracle) : Prop :=
  forall f n, n <= snd (o f n) /\ (smem f fresh = true -> n <= fst (o f n) < snd (o f n)).

(* evaluation of a reference expression; None = no object (unbound variable, AOther) *)
Definition eval (o : call_oracle) (s : astate) (e : aexpr) : option nat * astate :=
  match e with
  | AMake => (Some (next s), mkAs (locals s) (globals s) (written s) (S (next s)) (returned s))
  | AVar x => (lookup_s x (locals s), s)
  | AGlobal g => (lookup_s g (globals s), s)
  | ACall f => let '(l, n') := o f (next s) in (Some l, mkAs (locals s) (globals s) (written s) n' (returned s))
  | AOther => (None, s)
  end.

Definition exec (o : call_oracle) (s : astate) (st : astmt) : astate :=
  match st with
  | SAssign x e =>
      match eval o s e with
      | (Some l, s1) => mkAs ((x, l) :: locals s1) (globals s1) (written s1) (next s1) (returned s1)
      | (None, s1) => s1
      end
  | SStoreGlobal g e =>
      match eval o s e with
      | (Some l, s1) => mkAs (locals s1) ((g, l) :: globals s1) (written s1) (next s1) (returned s1)
      | (None, s1) => s1
      end
  | SWriteElem x =>
      match lookup_s x (locals s) with
      | Some l => mkAs (locals s) (globals s) (l :: written s) (next s) (returned s)
      | None => s
      end
  | SWriteGlobalElem g =>
      match lookup_s g (globals s) with
      | Some l => mkAs (locals s) (globals s) (l :: written s) (next s) (returned s)
      | None => s
      end
  | SReturn e =>
      match eval o s e with
      | (Some l, s1) => mkAs (locals s1) (globals s1) (written s1) (next s1) (l :: returned s1)
      | (None, s1) => s1
      end
  | SOpaque _ => s
  end.

(* a run of the flattened body: any sequence of its statements *)
Definition run_trace (o : call_oracle) (s : astate) (trace : list astmt) : astate := fold_left (exec o) trace s.
