(* C12 proofs: computation over the complete, regenerated tables. *)
From GV Require Import Tables.ObsTypes Tables.Lookup Gen.Obs Tables.Product Tables.Enum Tables.RegFactory.

(* ---- proof: computation over the complete tables ---- *)

Lemma lookup_none {A} (d : A) l k : assoc k l = None -> lookup d l k = d.
Proof. intros E. unfold lookup. now rewrite E. Qed.

Lemma reglist_tables_ok :
  obs_reglist_stable = true /\
  keys_increasing (-1) obs_reglist_of = true /\
  (* every id with a non-default observation is a known product *)
  forallb (fun kv => match assoc (fst kv) obs_products with Some _ => true | None => false end) obs_reglist_of = true /\
  (* all known products *)
  forallb (fun kv => c12_ok (fst kv)) obs_products = true /\
  (* what unknown ids get *)
  c12_ok_at obs_product_default obs_reglist_default = true.
Proof.
  split; [vm_compute; reflexivity|]. split; [vm_compute; reflexivity|]. split; [vm_compute; reflexivity|].
  split; vm_compute; reflexivity.
Qed.

Theorem c12_all_products id : 0 <= id < 65536 -> c12_ok id = true.
Proof.
  intros _. destruct reglist_tables_ok as (_ & _ & K & A & D).
  destruct (assoc id obs_products) as [o|] eqn:E.
  - apply assoc_in in E. rewrite forallb_forall in A. exact (A (id, o) E).
  - assert (N : assoc id obs_reglist_of = None).
    { destruct (assoc id obs_reglist_of) as [v|] eqn:E2; [|reflexivity].
      apply assoc_in in E2. rewrite forallb_forall in K. specialize (K _ E2). cbn [fst] in K.
      rewrite E in K. discriminate K. }
    unfold c12_ok, obs_product.
    rewrite (lookup_none obs_product_default obs_products id E).
    rewrite (lookup_none obs_reglist_default obs_reglist_of id N).
    exact D.
Qed.

(* the five classes are all inhabited: the statement is not vacuous *)
Lemma classes_inhabited :
  class_of (obs_product 515) = ClsBMV /\ class_of (obs_product 41865) = ClsSmartBMV /\
  class_of (obs_product 41046) = ClsMPPT /\ class_of (obs_product 41043) = ClsMPPTLoad /\
  class_of (obs_product 41521) = ClsPhoenix /\ class_of (obs_product 41218) = ClsUnsupported /\
  class_of (obs_product 41792) = ClsUnsupported.
Proof. vm_compute. repeat split. Qed.
