(* C14 / C15: enumerations and field lists over the regenerated IntToStringMap tables. *)
From GV Require Export Tables.ObsTypes Tables.Lookup Gen.ObsEnum.

(* ---- model of XFactory.NewEnum(v int) and XFactory.New(b uint8) ---- *)

Definition new_enum (m : list (Z * string)) (v : Z) : option (Z * string) :=
  if (0 <=? v) && (v <=? 255)
  then match assoc v m with Some n => Some (v, n) | None => None end
  else None.

Definition nonempty_s (s : string) : bool := negb (String.eqb s ""%string).

Definition pair_eqb (a b : Z * (Z * string)) : bool :=
  (fst a =? fst b) && (fst (snd a) =? fst (snd b)) && String.eqb (snd (snd a)) (snd (snd b)).

Fixpoint list_eqb {A} (eqb : A -> A -> bool) (a b : list A) : bool :=
  match a, b with
  | [], [] => true
  | x :: r, y :: s => eqb x y && list_eqb eqb r s
  | _, _ => false
  end.

(* what the observation of one factory must look like if the code implements the model *)
Definition enum_obs_ok (e : enum_obs) : bool :=
  let expected := map (fun kn => (fst kn, (fst kn, snd kn))) (e_map e) in
  keys_increasing (-1) (e_map e) &&
  forallb (fun kn => (0 <=? fst kn) && (fst kn <=? 255) && nonempty_s (snd kn)) (e_map e) &&
  list_eqb pair_eqb (e_new_ok e) expected && e_new_errs_ok e &&          (* typed constructor, all 256 bytes *)
  list_eqb pair_eqb (e_newenum_ok e) expected && e_newenum_errs_ok e.    (* NewEnum over the sampled integers *)




(* ---- field lists ---- *)

Definition fl_fields (m : list (Z * string)) (raw : Z) : list (Z * bool) :=
  map (fun kn => (fst kn, Z.testbit raw (fst kn))) m.

(* rendering from the bit vector of the documented fields, in index order *)
Fixpoint join_names (l : list string) : string :=
  match l with
  | [] => EmptyString
  | [x] => x
  | x :: r => (x ++ ", " ++ join_names r)%string
  end.

Definition set_names (m : list (Z * string)) (bits : list bool) : list string :=
  map (fun p => snd (fst p)) (filter (fun p => snd p) (combine m bits)).

Definition render_bits (m : list (Z * string)) (bits : list bool) : string :=
  join_names (set_names m bits).

Definition fl_render (m : list (Z * string)) (raw : Z) : string :=
  render_bits m (map (fun kn => Z.testbit raw (fst kn)) m).

(* judge: s is the ", "-join of some ordering of exactly the given names, each once
   (names may themselves contain ", ") *)
Fixpoint remove_one (n : string) (l : list string) : list string :=
  match l with
  | [] => []
  | x :: r => if String.eqb x n then r else x :: remove_one n r
  end.

Definition drop_str (k : nat) (s : string) : string := String.substring k (String.length s - k) s.

Fixpoint names_match (fuel : nat) (names : list string) (s : string) : bool :=
  match fuel with
  | O => false
  | S f =>
      match names with
      | [] => String.eqb s ""%string
      | _ =>
          existsb (fun n =>
                     String.prefix n s &&
                     let rest := drop_str (String.length n) s in
                     match remove_one n names with
                     | [] => String.eqb rest ""%string
                     | others => String.prefix ", "%string rest && names_match f others (drop_str 2 rest)
                     end) names
      end
  end.

Definition render_ok (m : list (Z * string)) (bits : list bool) (s : string) : bool :=
  names_match (S (List.length m)) (set_names m bits) s.

(* all bit vectors of a given length *)
Fixpoint all_bitvectors (n : nat) : list (list bool) :=
  match n with
  | O => [[]]
  | S k => flat_map (fun v => [false :: v; true :: v]) (all_bitvectors k)
  end.


Definition fl_render_all_ok (f : fl_obs) : bool :=
  forallb (fun bits => render_ok (f_map f) bits (render_bits (f_map f) bits))
          (all_bitvectors (List.length (f_map f))).




