(* Tie T-gen for C16: the register-list operations of Gen/RegImpl.v (the translation of
   /repo/veregister/registerList.go and filter.go made on every run) are the operations of the
   four-sequence model Tables/RegList.v, for every list, predicate and name set. *)
From Coq Require Import Strings.Byte.
From GV Require Import Vedirect.DrvSem Tables.RegSem Gen.RegImpl Tables.RegListFacts.
Import ListNotations.
Local Open Scope Z_scope.

Theorem go_Len_spec rl : go_Len rl = (DVal (Z.of_nat (rl_len rl)), rl).
Proof.
  unfold go_Len, rl_len, bind, get_numbers, get_texts, get_enums, get_fieldlists, ret, g_len.
  do 2 f_equal. lia.
Qed.

Theorem go_AppendNumber_spec rs rl : go_AppendNumberRegisterStruct rs rl = (DVal tt, rl_step rl (OAppendNumbers rs)).
Proof. reflexivity. Qed.
Theorem go_AppendText_spec rs rl : go_AppendTextRegisterStruct rs rl = (DVal tt, rl_step rl (OAppendTexts rs)).
Proof. reflexivity. Qed.
Theorem go_AppendEnum_spec rs rl : go_AppendEnumRegisterStruct rs rl = (DVal tt, rl_step rl (OAppendEnums rs)).
Proof. reflexivity. Qed.
Theorem go_AppendFieldList_spec rs rl : go_AppendFieldListRegisterStruct rs rl = (DVal tt, rl_step rl (OAppendFieldLists rs)).
Proof. reflexivity. Qed.

(* a predicate whose evaluation has no effect on the list and cannot fail *)
Definition pure_pred (f : reg -> D bool) (p : reg -> bool) : Prop := forall r s, f r s = (DVal (p r), s).

Lemma filter_loop (f : reg -> D bool) p : pure_pred f p -> forall inp acc s,
  @range_list reg (list reg) (list reg) inp (fun v_r v_oup =>
    bind (f v_r) (fun t1 =>
      let join2 := fun v_oup => ret (LCont v_oup) in
      if t1 then let v_oup := (v_oup ++ [v_r]) in join2 v_oup else join2 v_oup)) acc s
  = (DVal (LDone (acc ++ filter p inp)), s).
Proof.
  intros Hp inp. induction inp as [|r rest IH]; intros acc s; cbn [range_list filter].
  - rewrite app_nil_r. reflexivity.
  - unfold bind at 1. unfold bind at 1. rewrite Hp. cbv zeta. destruct (p r).
    + unfold ret at 1. rewrite IH. rewrite <- app_assoc. reflexivity.
    + unfold ret at 1. apply IH.
Qed.

Theorem go_filterRegisters_spec inp f p s : pure_pred f p ->
  go_filterRegisters inp f s = (DVal (filter p inp), s).
Proof.
  intros Hp. unfold go_filterRegisters. cbv zeta. unfold bind at 1.
  rewrite (filter_loop f p Hp). reflexivity.
Qed.

Theorem go_FilterRegister_spec f p rl : pure_pred f p ->
  go_FilterRegister f rl = (DVal tt, rl_filter p rl).
Proof.
  intros Hp. unfold go_FilterRegister.
  repeat (unfold bind at 1; first [rewrite (go_filterRegisters_spec _ f p _ Hp) | unfold get_numbers at 1 | unfold get_texts at 1
                                    | unfold get_enums at 1 | unfold get_fieldlists at 1 | unfold set_numbers at 1 | unfold set_texts at 1
                                    | unfold set_enums at 1 | unfold set_fieldlists at 1]; cbn [l_numbers l_texts l_enums l_fieldlists]).
  reflexivity.
Qed.

(* FilterRegister with any of the model's predicates *)
Theorem go_FilterRegister_pred q rl :
  go_FilterRegister (fun r => ret (eval_pred q r)) rl = (DVal tt, rl_step rl (OFilter q)).
Proof. apply go_FilterRegister_spec. intros r s. reflexivity. Qed.

(* ---- FilterByName ---- *)

Lemma name_eqb_spec a (r : reg) : g_bytes_eqb (list_byte_of_string a) (name_bytes r) = String.eqb a (r_name r).
Proof.
  unfold g_bytes_eqb, name_bytes. destruct (list_eq_dec Byte.byte_eq_dec _ _) as [E|N].
  - apply (f_equal string_of_list_byte) in E. rewrite !string_of_list_byte_of_string in E. subst a.
    symmetry. apply String.eqb_refl.
  - symmetry. apply String.eqb_neq. intros ->. now apply N.
Qed.

Definition by_name_body (v_r : reg) :=
  (fun (v_e : list byte) (_ : unit) =>
    if (g_bytes_eqb v_e (name_bytes v_r)) then ret (@LRet unit bool false) else ret (LCont tt)).

Lemma by_name_loop names r s :
  @range_list (list byte) unit bool (map list_byte_of_string names) (by_name_body r) tt s
  = (DVal (if string_eqb_list names (r_name r) then LReturned false else LDone tt), s).
Proof.
  induction names as [|a rest IH]; cbn [map range_list string_eqb_list]; [reflexivity|].
  unfold bind at 1. unfold by_name_body at 1. rewrite name_eqb_spec.
  destruct (String.eqb a (r_name r)); cbn [orb]; [reflexivity|]. unfold ret at 1. apply IH.
Qed.

Theorem go_FilterByName_spec names rl :
  go_FilterByName (map list_byte_of_string names) rl = (DVal tt, rl_step rl (OFilterByName names)).
Proof.
  unfold go_FilterByName. unfold bind at 1.
  rewrite (go_FilterRegister_spec _ (fun r => negb (string_eqb_list names (r_name r)))); [reflexivity|].
  intros r s. unfold bind.
  change (fun v_e (_ : unit) => if g_bytes_eqb v_e (name_bytes r) then ret (LRet false) else ret (LCont tt))
    with (by_name_body r).
  rewrite by_name_loop. destruct (string_eqb_list names (r_name r)); reflexivity.
Qed.

(* ---- GetRegisters ---- *)

Lemma collect_loop l : forall acc s,
  @range_list reg (list reg) (list reg) l (fun v_r v_oup => let v_oup := (v_oup ++ [v_r]) in ret (LCont v_oup)) acc s
  = (DVal (LDone (acc ++ l)), s).
Proof.
  induction l as [|r rest IH]; intros acc s; cbn [range_list].
  - rewrite app_nil_r. reflexivity.
  - unfold bind at 1. cbv zeta. unfold ret at 1. rewrite IH. rewrite <- app_assoc. reflexivity.
Qed.

Theorem go_GetRegisters_spec rl : go_GetRegisters rl = (DVal (rl_get_registers rl), rl).
Proof.
  unfold go_GetRegisters, rl_get_registers, rl_all, g_sort_stable_by_sort. cbv zeta.
  unfold bind at 1. unfold get_numbers at 1. unfold bind at 1. rewrite collect_loop.
  unfold bind at 1. unfold get_texts at 1. unfold bind at 1. rewrite collect_loop.
  unfold bind at 1. unfold get_enums at 1. unfold bind at 1. rewrite collect_loop.
  unfold bind at 1. unfold get_fieldlists at 1. unfold bind at 1. rewrite collect_loop.
  cbn [app]. rewrite <- !app_assoc. reflexivity.
Qed.

(* ---- any operation history ---- *)

Definition go_op (o : rlop) : D unit :=
  match o with
  | OAppendNumbers rs => go_AppendNumberRegisterStruct rs
  | OAppendTexts rs => go_AppendTextRegisterStruct rs
  | OAppendEnums rs => go_AppendEnumRegisterStruct rs
  | OAppendFieldLists rs => go_AppendFieldListRegisterStruct rs
  | OFilter q => go_FilterRegister (fun r => ret (eval_pred q r))
  | OFilterByName names => go_FilterByName (map list_byte_of_string names)
  end.

Theorem go_op_spec o rl : go_op o rl = (DVal tt, rl_step rl o).
Proof.
  destruct o; cbn [go_op].
  - apply go_AppendNumber_spec. - apply go_AppendText_spec. - apply go_AppendEnum_spec.
  - apply go_AppendFieldList_spec. - apply go_FilterRegister_pred. - apply go_FilterByName_spec.
Qed.

Fixpoint go_ops (ops : list rlop) : D unit :=
  match ops with
  | [] => ret tt
  | o :: rest => bind (go_op o) (fun _ => go_ops rest)
  end.

(* after ANY history of the translated operations the list is the model's list; with C16_history
   (Props/C16.v) it is what four plain sequences would hold *)
Theorem go_history ops : forall rl, go_ops ops rl = (DVal tt, fold_left rl_step ops rl).
Proof.
  induction ops as [|o rest IH]; intros rl; cbn [go_ops fold_left]; [reflexivity|].
  unfold bind. rewrite go_op_spec. apply IH.
Qed.

Theorem go_history_view ops :
  let rl := fold_left rl_step ops rl_empty in
  bind (go_ops ops) (fun _ => bind go_Len (fun n => bind go_GetRegisters (fun l => ret (n, l)))) rl_empty
  = (DVal (Z.of_nat (rl_len rl), rl_get_registers rl), rl).
Proof.
  cbv zeta. unfold bind at 1. rewrite go_history. unfold bind at 1. rewrite go_Len_spec.
  unfold bind at 1. rewrite go_GetRegisters_spec. reflexivity.
Qed.
