(* C17: the alias check accepts every map/slice-returning function of veproduct and veconst as
   translated from the current source, and the translation covers the lookup functions the
   property names. *)
From GV Require Import Tables.Alias Tables.AliasFacts Gen.AliasGen Tables.ObsTypes Gen.ObsEnum.
Local Open Scope string_scope.

Lemma lookups_all_fresh : all_fresh alias_functions = true.
Proof. vm_compute. reflexivity. Qed.

(* the string map of veproduct, IntToStringMap of every enum and field-list factory the tables
   know (T-obs), Fields and Decode of every field list *)
Definition covered : bool :=
  let names := map af_name alias_functions in
  smem "veproduct.GetStringMap" names &&
  forallb (fun e => smem ("veconst." ++ e_name e ++ ".IntToStringMap") names) obs_enums &&
  forallb (fun f => smem ("veconst." ++ f_name f ++ ".IntToStringMap") names) obs_fieldlists &&
  Nat.leb 3 (List.length (filter (fun n => String.eqb (substring (String.length n - 7) 7 n) ".Fields") names)) &&
  Nat.leb 3 (List.length (filter (fun n => String.eqb (substring (String.length n - 7) 7 n) ".Decode") names)).

Lemma lookups_covered : covered = true.
Proof. vm_compute. reflexivity. Qed.
