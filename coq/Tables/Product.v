(* C13: the product table, read from the complete observation of all accessors on all
   65536 ids and all 256 type values (Gen/Obs.v), against an independent specification. *)
From GV Require Export Tables.ObsTypes Tables.Lookup Gen.Obs.

Definition obs_product (id : Z) : prod_obs := lookup obs_product_default obs_products id.
Definition obs_type (t : Z) : type_obs := lookup (mkTypeObs ""%string false false false) obs_types t.

Definition nonempty (s : string) : bool := negb (String.eqb s ""%string).

(* ---- small parsers over model designations ---- *)

Definition digit_of (c : ascii) : option Z :=
  let n := Z.of_N (N_of_ascii c) in if (48 <=? n) && (n <=? 57) then Some (n - 48) else None.

(* leading decimal number: (value, rest); None if there is no digit *)
Fixpoint parse_dec_acc (acc : Z) (seen : bool) (s : string) : option (Z * string) :=
  match s with
  | String c r =>
      match digit_of c with
      | Some d => parse_dec_acc (10 * acc + d) true r
      | None => if seen then Some (acc, s) else None
      end
  | EmptyString => if seen then Some (acc, s) else None
  end.
Definition parse_dec := parse_dec_acc 0 false.

Definition strip_prefix (p s : string) : option string :=
  if String.prefix p s then Some (String.substring (String.length p) (String.length s - String.length p) s) else None.

(* "<volt>|<amp>..." or "<volt>/<amp>..." (VE.Can models) -> (volt, amp) *)
Definition parse_panel (model : string) : option (Z * Z) :=
  match parse_dec model with
  | Some (v, r1) =>
      match (match strip_prefix "|"%string r1 with Some r => Some r | None => strip_prefix "/"%string r1 end) with
      | Some r2 => match parse_dec r2 with Some (i, _) => Some (v, i) | None => None end
      | None => None
      end
  | None => None
  end.

(* "<batt>V <power>VA <ac>V..." -> (batt, power, ac) *)
Definition parse_phoenix (model : string) : option (Z * Z * Z) :=
  match parse_dec model with
  | Some (b, r1) =>
      match strip_prefix "V "%string r1 with
      | Some r2 =>
          match parse_dec r2 with
          | Some (p, r3) =>
              match strip_prefix "VA "%string r3 with
              | Some r4 => match parse_dec r4 with
                           | Some (a, r5) => if String.prefix "V"%string r5 then Some (b, p, a) else None
                           | None => None end
              | None => None
              end
          | None => None
          end
      | None => None
      end
  | None => None
  end.

(* ---- specification ---- *)

(* category implied by the id range (VE.Direct product id numbering) *)
Inductive category := CatBMV | CatSolar | CatInverter | CatNone.

Definition category_of_id (id : Z) : category :=
  if ((512 <=? id) && (id <=? 767)) || ((41856 <=? id) && (id <=? 41871)) then CatBMV          (* 0x02xx, 0xA38x *)
  else if (id =? 768) || ((41024 <=? id) && (id <=? 41471)) then CatSolar                      (* 0x0300, 0xA040..0xA1FF *)
  else if (41472 <=? id) && (id <=? 41855) then CatInverter                                    (* 0xA200..0xA37F *)
  else CatNone.

Definition category_of_type (t : type_obs) : option category :=
  match t_bmv t, t_solar t, t_inverter t with
  | true, false, false => Some CatBMV
  | false, true, false => Some CatSolar
  | false, false, true => Some CatInverter
  | _, _, _ => None                                   (* none or more than one *)
  end.

Definition cat_eqb (a b : category) : bool :=
  match a, b with
  | CatBMV, CatBMV | CatSolar, CatSolar | CatInverter, CatInverter | CatNone, CatNone => true
  | _, _ => false
  end.

(* Phoenix inverter ids are 0xA2PV: P = power class, V = battery voltage bits and 120 V bit *)
Definition phoenix_power (p : Z) : option Z :=
  if p =? 3 then Some 250 else if p =? 4 then Some 375 else if p =? 5 then Some 500
  else if p =? 6 then Some 800 else if p =? 7 then Some 1200 else if p =? 8 then Some 1600
  else if p =? 9 then Some 2000 else if p =? 10 then Some 3000 else if p =? 11 then Some 5000
  else if p =? 14 then Some 800 else if p =? 15 then Some 1200 else None.

Definition phoenix_expected (id : Z) : option (Z * Z * Z) :=
  let v := id mod 16 in
  let batt := if v mod 8 =? 1 then Some 12 else if v mod 8 =? 2 then Some 24 else if v mod 8 =? 4 then Some 48 else None in
  let ac := if v / 8 =? 1 then 120 else 230 in
  match batt, phoenix_power ((id / 16) mod 16) with
  | Some b, Some p => Some (b, p, ac)
  | _, _ => None
  end.

Definition opt3_eqb (a b : option (Z * Z * Z)) : bool :=
  match a, b with
  | Some (x, y, z), Some (x', y', z') => (x =? x') && (y =? y') && (z =? z')
  | _, _ => false
  end.

(* C13 for one id *)
Definition c13_coherent (id : Z) (o : prod_obs) : bool :=
  let ty := obs_type (p_type o) in
  let known := p_exists o in
  (* known iff non-empty model iff known type iff present in the map *)
  Bool.eqb known (nonempty (p_model o)) &&
  Bool.eqb known (nonempty (t_name ty)) &&
  Bool.eqb known (match p_mapentry o with Some _ => true | None => false end) &&
  (* display string = type name + space + model = map entry; empty for unknown ids *)
  (if known
   then String.eqb (p_string o) (t_name ty ++ " " ++ p_model o)%string &&
        match p_mapentry o with Some e => String.eqb e (p_string o) | None => false end
   else String.eqb (p_string o) ""%string && (p_type o =? 0)).

Definition c13_one_category (id : Z) (o : prod_obs) : bool :=
  if p_exists o
  then match category_of_type (obs_type (p_type o)) with
       | Some c => cat_eqb c (category_of_id id)
       | None => false
       end
  else true.

Definition c13_panel (id : Z) (o : prod_obs) : bool :=
  if p_exists o && t_solar (obs_type (p_type o))
  then match parse_panel (p_model o) with
       | Some (v, i) => (p_maxv o =? v) && (p_maxi o =? i)
       | None => false
       end
  else (p_maxv o =? -1) && (p_maxi o =? -1).

Definition is_phoenix_inverter_type (t : Z) : bool := (t =? 7) || (t =? 8).

Definition c13_phoenix (id : Z) (o : prod_obs) : bool :=
  if p_exists o && is_phoenix_inverter_type (p_type o)
  then opt3_eqb (parse_phoenix (p_model o)) (phoenix_expected id)
  else true.

Definition c13_ok (id : Z) (o : prod_obs) : bool :=
  c13_coherent id o && c13_one_category id o && c13_panel id o && c13_phoenix id o.

(* all 256 type values *)
Definition c13_type_ok (t : Z) (o : type_obs) : bool :=
  Bool.eqb (nonempty (t_name o)) ((1 <=? t) && (t <=? 10)) &&
  (* the predicates are pairwise disjoint, and hold only for named types *)
  negb (t_bmv o && t_solar o) && negb (t_bmv o && t_inverter o) && negb (t_solar o && t_inverter o) &&
  implb (t_bmv o || t_solar o || t_inverter o) (nonempty (t_name o)) &&
  implb (nonempty (t_name o)) (t_bmv o || t_solar o || t_inverter o).

