(* C17: the alias theorem closed over calls.  call_result fs d f n l n' : at call depth d, a
   call of function f of the library fs, started when n objects exist, may return object l and
   leave n' objects — its flattened body runs in any order, any number of times, and the calls
   it makes return what call_result allows for them at depth d-1.  If the check accepts every
   function of the library, every possible result is an object allocated by that very call. *)
From GV Require Import Tables.Alias Tables.AliasFacts.
Local Open Scope string_scope.

Fixpoint find_fun (fs : list afun) (f : string) : option afun :=
  match fs with
  | [] => None
  | fn :: r => if String.eqb f (af_name fn) then Some fn else find_fun r f
  end.

Definition calls_of_expr (e : aexpr) : list string := match e with ACall f => [f] | _ => [] end.
Definition calls_of_stmt (st : astmt) : list string :=
  match st with SAssign _ e | SStoreGlobal _ e | SReturn e => calls_of_expr e | _ => [] end.

Definition init_state (gl : list (string * nat)) (n : nat) : astate := mkAs [] gl [] n [].

Inductive call_result (fs : list afun) : nat -> string -> nat -> nat -> nat -> Prop :=
| CR_intro d f fn gl n o trace l :
    find_fun fs f = Some fn ->
    Forall (fun st => In st (af_body fn)) trace ->
    (forall g m, In g (flat_map calls_of_stmt (af_body fn)) ->
                 call_result fs d g m (fst (o g m)) (snd (o g m))) ->
    In l (returned (run_trace o (init_state gl n) trace)) ->
    call_result fs (S d) f n l (next (run_trace o (init_state gl n) trace)).

Lemma find_fun_in fs f fn : find_fun fs f = Some fn -> In fn fs.
Proof.
  induction fs as [|x fs IH]; cbn [find_fun]; [discriminate|].
  destruct (String.eqb f (af_name x)); [intros H; injection H as <-; now left|intros H; right; now apply IH].
Qed.

Lemma eval_ext o o' s e : (forall g, In g (calls_of_expr e) -> forall m, o g m = o' g m) -> eval o s e = eval o' s e.
Proof. intros H. destruct e; cbn [eval]; try reflexivity. rewrite (H f); [reflexivity|now left]. Qed.

Lemma exec_ext o o' s st : (forall g, In g (calls_of_stmt st) -> forall m, o g m = o' g m) -> exec o s st = exec o' s st.
Proof. intros H. destruct st; cbn [exec calls_of_stmt] in *; try reflexivity; now rewrite (eval_ext o o' s e H). Qed.

Lemma run_trace_ext o o' body trace : Forall (fun st => In st body) trace ->
  (forall g, In g (flat_map calls_of_stmt body) -> forall m, o g m = o' g m) ->
  forall s, run_trace o s trace = run_trace o' s trace.
Proof.
  unfold run_trace. induction 1 as [|st trace Hst _ IH]; intros Hag s; cbn [fold_left]; [reflexivity|].
  rewrite (exec_ext o o' s st).
  - now apply IH.
  - intros g Hg. apply Hag. apply in_flat_map. now exists st.
Qed.

Theorem call_results_are_fresh fs : all_fresh fs = true ->
  forall d f n l n', call_result fs d f n l n' -> n <= l < n'.
Proof.
  intros Hall. induction d as [|d IH]; intros f n l n' H; inversion H; subst.
  match goal with Hf : find_fun fs f = Some ?fn, Ht : Forall _ ?trace, Hc : forall g m, _ -> call_result fs d g m _ _,
                  Hl : In l (returned (run_trace ?o (init_state ?gl n) ?trace)) |- _ =>
    rename fn into FN; rename o into O; rename Hc into HC; rename Hl into HL; rename Ht into HT; rename Hf into HF; rename gl into GL end.
  (* a total oracle that agrees with O on the functions the body calls *)
  set (called := flat_map calls_of_stmt (af_body FN)).
  set (O' := fun g m => if smem g called then O g m else (m, S m)).
  assert (Hag : forall g, In g called -> forall m, O g m = O' g m).
  { intros g Hg m. unfold O'. replace (smem g called) with true; [reflexivity|].
    symmetry. unfold smem. apply existsb_exists. exists g. split; [exact Hg|apply String.eqb_refl]. }
  rewrite (run_trace_ext O O' (af_body FN) _ HT Hag) in *.
  assert (Hok : oracle_ok (fresh_set fs) O').
  { intros g m. unfold O'. destruct (smem g called) eqn:E.
    - unfold smem in E. apply existsb_exists in E as (g' & Hin & Eg). apply String.eqb_eq in Eg. subst g'.
      specialize (IH _ _ _ _ (HC g m Hin)). split; [lia|intros _; exact IH].
    - cbn [fst snd]. split; [lia|intros _; lia]. }
  pose proof (find_fun_in _ _ _ HF) as Hin.
  destruct (all_fresh_sound fs O' FN (init_state GL n) _ Hall Hin Hok HT eq_refl eq_refl) as (_ & Hret & _).
  exact (Hret l HL).
Qed.

(* the relation is inhabited: Fields calling Decode, as in veconst *)
Definition demo_lib : list afun :=
  [mkAfun "Decode" [SAssign "ret" AMake; SWriteElem "ret"; SReturn (AVar "ret")];
   mkAfun "Fields" [SAssign "m" (ACall "Decode"); SAssign "ret" AMake; SWriteElem "ret"; SReturn (AVar "ret")]].

Example decode_result n : call_result demo_lib 1 "Decode" n n (S n).
Proof.
  apply (CR_intro demo_lib 0 "Decode" (mkAfun "Decode" [SAssign "ret" AMake; SWriteElem "ret"; SReturn (AVar "ret")])
                  [] n (fun _ m => (m, m)) [SAssign "ret" AMake; SWriteElem "ret"; SReturn (AVar "ret")] n).
  - reflexivity.
  - repeat (apply Forall_cons; [cbn; auto 10|]); apply Forall_nil.
  - intros g m Hin. cbn in Hin. destruct Hin.
  - cbn. now left.
Qed.

Example fields_result n : call_result demo_lib 2 "Fields" n (S n) (S (S n)).
Proof.
  apply (CR_intro demo_lib 1 "Fields"
           (mkAfun "Fields" [SAssign "m" (ACall "Decode"); SAssign "ret" AMake; SWriteElem "ret"; SReturn (AVar "ret")])
           [] n (fun _ m => (m, S m))
           [SAssign "m" (ACall "Decode"); SAssign "ret" AMake; SWriteElem "ret"; SReturn (AVar "ret")] (S n)).
  - reflexivity.
  - repeat (apply Forall_cons; [cbn; auto 10|]); apply Forall_nil.
  - intros g m Hin. cbn in Hin. destruct Hin as [<-|[]]. cbn [fst snd]. apply decode_result.
  - cbn. now left.
Qed.

Example demo_lib_accepted : all_fresh demo_lib = true.
Proof. reflexivity. Qed.
