(* C13 proofs: computation over the complete, regenerated table. *)
From GV Require Import Tables.ObsTypes Tables.Lookup Gen.Obs Tables.Product.

(* ---- proofs: computation over the complete table ---- *)

Lemma products_table_wellformed :
  keys_increasing (-1) obs_products = true /\
  forallb (fun kv => (0 <=? fst kv) && (fst kv <? 65536)) obs_products = true /\
  obs_product_stable = true /\
  obs_stringmap_size = Z.of_nat (List.length (filter (fun kv => p_exists (snd kv)) obs_products)) /\
  c13_ok 0 obs_product_default = true.
Proof.
  split; [vm_compute; reflexivity|]. split; [vm_compute; reflexivity|]. split; [vm_compute; reflexivity|].
  split; vm_compute; reflexivity.
Qed.

Lemma c13_default_ok id : 0 <= id < 65536 -> assoc id obs_products = None -> c13_ok id obs_product_default = true.
Proof. intros _ _. vm_compute. reflexivity. Qed.

Theorem c13_all_products id : 0 <= id < 65536 -> c13_ok id (obs_product id) = true.
Proof.
  intros H. unfold obs_product.
  apply (lookup_forall c13_ok obs_product_default obs_products).
  - vm_compute. reflexivity.
  - intros _. vm_compute. reflexivity.
Qed.

Theorem c13_all_types t : 0 <= t < 256 -> c13_type_ok t (obs_type t) = true.
Proof.
  intros H. unfold obs_type.
  apply (lookup_forall c13_type_ok _ obs_types).
  - vm_compute. reflexivity.
  - intros E. exfalso.
    assert (A : forallb (fun k => match assoc k obs_types with Some _ => true | None => false end)
                        (map Z.of_nat (seq 0 256)) = true) by (vm_compute; reflexivity).
    rewrite forallb_forall in A. specialize (A t).
    rewrite E in A. assert (I : In t (map Z.of_nat (seq 0 256))).
    { replace t with (Z.of_nat (Z.to_nat t)) by lia. apply in_map, in_seq. lia. }
    specialize (A I). discriminate.
Qed.
