(* Tie T-gen for C14/C15: every NewEnum and NewFieldList of package veconst, translated on every run
   (Gen/EnumImpl.v), is the model of Tables/Enum.v for EVERY integer argument. *)
From GV Require Import Vedirect.DrvSem Tables.EnumSem Gen.EnumImpl.
Import ListNotations.
Local Open Scope Z_scope.

Definition res_eqb (a b : (Z * string) * gerr) : bool :=
  (fst (fst a) =? fst (fst b)) && String.eqb (snd (fst a)) (snd (fst b)) &&
  match snd a, snd b with
  | None, None => true
  | Some EInvalidEnumIdx, Some EInvalidEnumIdx => true
  | _, _ => false
  end.

Lemma res_eqb_eq a b : res_eqb a b = true -> a = b.
Proof.
  destruct a as [[i n] e], b as [[j m] f]. unfold res_eqb. cbn [fst snd]. intros H.
  apply andb_prop in H as [H H3]. apply andb_prop in H as [H1 H2].
  apply Z.eqb_eq in H1. apply String.eqb_eq in H2. subst.
  destruct e as [[]|], f as [[]|]; try discriminate; reflexivity.
Qed.

Definition all_bytes_z : list Z := map Z.of_nat (seq 0 256).

(* on every byte the observed typed constructor of every factory is the model *)
Lemma enum_new_bytes_ok :
  forallb (fun e => forallb (fun b => res_eqb (g_enum_new (e_name e) b) (new_enum_model (e_name e) b)) all_bytes_z) obs_enums = true.
Proof. vm_compute. reflexivity. Qed.

Lemma g_enum_new_spec name b :
  existsb (String.eqb name) (map e_name obs_enums) = true -> 0 <= b <= 255 ->
  g_enum_new name b = new_enum_model name b.
Proof.
  intros Hn Hb. apply existsb_exists in Hn as (n' & Hin & En). apply String.eqb_eq in En. subst n'.
  apply in_map_iff in Hin as (e & <- & Hine).
  pose proof enum_new_bytes_ok as H. rewrite forallb_forall in H. specialize (H e Hine).
  rewrite forallb_forall in H. apply res_eqb_eq. apply H.
  unfold all_bytes_z. replace b with (Z.of_nat (Z.to_nat b)) by lia. apply in_map. apply in_seq. lia.
Qed.

Lemma new_enum_model_out name v : (v <? 0) || (v >? 255) = true ->
  new_enum_model name v = ((0, EmptyString), Some EInvalidEnumIdx).
Proof.
  intros H. unfold new_enum_model, new_enum. destruct (enum_of name); [|reflexivity].
  replace ((0 <=? v) && (v <=? 255)) with false; [reflexivity|].
  symmetry. apply andb_false_iff. apply orb_true_iff in H as [H|H]; [left|right]; lia.
Qed.

(* the shape every translated NewEnum has *)
Lemma new_enum_shape name v s :
  existsb (String.eqb name) (map e_name obs_enums) = true ->
  (if orb (v <? 0) (v >? 255) then ret ((0, EmptyString), Some EInvalidEnumIdx)
   else ret (g_enum_new name (wrapU 8 v))) s = (DVal (new_enum_model name v), s).
Proof.
  intros Hn. destruct (orb (v <? 0) (v >? 255)) eqn:E.
  - rewrite new_enum_model_out by exact E. reflexivity.
  - apply orb_false_iff in E as [E1 E2].
    assert (Hv : 0 <= v <= 255) by lia.
    unfold wrapU. change (2 ^ 8) with 256. rewrite Z.mod_small by lia.
    rewrite g_enum_new_spec by assumption. reflexivity.
Qed.

Ltac one_enum :=
  cbn [fst snd]; intros v s;
  match goal with |- ?f _ _ = _ => unfold f end;
  apply new_enum_shape; vm_compute; reflexivity.

(* EVERY NewEnum of the package, for EVERY integer: the model of C14 *)
Theorem all_new_enum_refine :
  Forall (fun p => forall v s, snd p v s = (DVal (new_enum_model (fst p) v), s)) all_new_enum.
Proof.
  unfold all_new_enum. repeat (apply Forall_cons; [one_enum|]). apply Forall_nil.
Qed.

(* ... and every enumeration of the tables has its NewEnum among them *)
Theorem all_new_enum_complete :
  forallb (fun e => existsb (String.eqb (e_name e)) (map fst all_new_enum)) obs_enums = true.
Proof. vm_compute. reflexivity. Qed.

Ltac one_fl :=
  cbn [fst snd]; intros v s;
  match goal with |- ?f _ _ = _ => unfold f end;
  unfold ret, g_fl_new, new_fieldlist_model, wrapU;
  match goal with |- context[fl_bits_of ?n] => let b := eval vm_compute in (fl_bits_of n) in change (fl_bits_of n) with b end;
  reflexivity.

(* every NewFieldList, for every unsigned argument: the value cut to the width of the type *)
Theorem all_new_fieldlist_refine :
  Forall (fun p => forall v s, snd p v s = (DVal (new_fieldlist_model (fst p) v), s)) all_new_fieldlist.
Proof.
  unfold all_new_fieldlist. repeat (apply Forall_cons; [one_fl|]). apply Forall_nil.
Qed.

Theorem all_new_fieldlist_complete :
  forallb (fun f => existsb (String.eqb (f_name f)) (map fst all_new_fieldlist)) obs_fieldlists = true.
Proof. vm_compute. reflexivity. Qed.

(* the statement of C14 on the translated source: for every enumeration and EVERY integer v, construction
   succeeds iff v is a key of the index-to-name map; the constant then has index v and the mapped name;
   otherwise the error is ErrInvalidEnumIdx *)
Theorem src_new_enum_iff name f : In (name, f) all_new_enum -> forall e, enum_of name = Some e -> forall v s,
  match assoc v (e_map e) with
  | Some n => 0 <= v <= 255 -> f v s = (DVal ((v, n), None), s)
  | None => f v s = (DVal ((0, EmptyString), Some EInvalidEnumIdx), s)
  end.
Proof.
  intros Hin e He v s. pose proof all_new_enum_refine as R. rewrite Forall_forall in R.
  specialize (R _ Hin v s). cbn [fst snd] in R. rewrite R. unfold new_enum_model. rewrite He. unfold new_enum.
  destruct (assoc v (e_map e)) as [n|] eqn:Ea.
  - intros Hv. replace ((0 <=? v) && (v <=? 255)) with true by (symmetry; apply andb_true_iff; lia). reflexivity.
  - destruct ((0 <=? v) && (v <=? 255)); reflexivity.
Qed.
