(* The Gallina vocabulary of the veconst translation (harness/cmd/gvgen enum): NewEnum / NewFieldList of
   every factory.  The typed constructor New is the regenerated observation of it (all 256 bytes, T-obs).
   No proofs here.  Import this file AFTER Vedirect.DrvSem. *)
From GV Require Import Vedirect.DrvSem.
From GV Require Export Tables.ObsTypes Tables.Lookup Gen.ObsEnum Tables.Enum.
Open Scope Z_scope.

Definition D (A : Type) := unit -> dout A * unit.
Definition ret {A} (a : A) : D A := fun s => (DVal a, s).
Definition bind {A B} (m : D A) (f : A -> D B) : D B :=
  fun s => match m s with
           | (DVal a, s') => f a s'
           | (DPanic, s') => (DPanic, s')
           | (DFuel, s') => (DFuel, s')
           end.

Definition enum_of (factory : string) : option enum_obs :=
  find (fun e => String.eqb (e_name e) factory) obs_enums.

(* XFactory.New(b): the observed typed constructor *)
Definition g_enum_new (factory : string) (b : Z) : (Z * string) * gerr :=
  match enum_of factory with
  | Some e => match assoc b (e_new_ok e) with
              | Some is => (is, None)
              | None => ((0, EmptyString), Some EInvalidEnumIdx)
              end
  | None => ((0, EmptyString), Some EInvalidEnumIdx)
  end.

(* XFactory.New(v) of a field-list factory: the value itself, of the width of the type *)
Definition g_fl_new (factory : string) (bits : Z) (v : Z) : Z * gerr := (v, None).

(* ---- the model (Tables/Enum.v) as the result of the Go functions ---- *)

Definition new_enum_model (factory : string) (v : Z) : (Z * string) * gerr :=
  match enum_of factory with
  | Some e => match new_enum (e_map e) v with
              | Some is => (is, None)
              | None => ((0, EmptyString), Some EInvalidEnumIdx)
              end
  | None => ((0, EmptyString), Some EInvalidEnumIdx)
  end.

Definition fl_bits_of (factory : string) : Z :=
  match find (fun f => String.eqb (f_name f) factory) obs_fieldlists with
  | Some f => f_bits f
  | None => 0
  end.

Definition new_fieldlist_model (factory : string) (v : Z) : Z * gerr := (v mod 2 ^ fl_bits_of factory, None).
