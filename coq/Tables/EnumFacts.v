(* C14 / C15 proofs over the regenerated tables. *)
From GV Require Import Tables.ObsTypes Tables.Lookup Gen.ObsEnum Tables.Enum.

Lemma all_enum_obs_ok : forallb enum_obs_ok obs_enums = true /\ List.length obs_enums = 20%nat.
Proof. split; vm_compute; reflexivity. Qed.

Lemma assoc_key_range (m : list (Z * string)) v n :
  forallb (fun kn => (0 <=? fst kn) && (fst kn <=? 255) && nonempty_s (snd kn)) m = true ->
  assoc v m = Some n -> 0 <= v <= 255 /\ n <> ""%string.
Proof.
  intros H E. apply assoc_in in E. rewrite forallb_forall in H. specialize (H _ E). cbn [fst snd] in H.
  apply andb_prop in H as [H1 H2]. apply andb_prop in H1 as [H0 H1].
  split; [lia|]. intros ->. discriminate.
Qed.

(* for EVERY integer v: construction succeeds iff v is a key; then index v and the mapped,
   non-empty name *)
Theorem new_enum_spec e : In e obs_enums -> forall v : Z,
  match new_enum (e_map e) v with
  | Some (i, n) => assoc v (e_map e) = Some n /\ i = v /\ n <> ""%string
  | None => assoc v (e_map e) = None
  end.
Proof.
  intros He v. destruct all_enum_obs_ok as [A _]. rewrite forallb_forall in A. specialize (A e He).
  unfold enum_obs_ok in A. repeat (apply andb_prop in A as [A ?]).
  unfold new_enum. destruct ((0 <=? v) && (v <=? 255)) eqn:R.
  - destruct (assoc v (e_map e)) as [n|] eqn:E; [|reflexivity].
    repeat split. eapply assoc_key_range; eassumption.
  - destruct (assoc v (e_map e)) as [n|] eqn:E; [|reflexivity].
    exfalso. eapply assoc_key_range in E; [|eassumption]. lia.
Qed.

Lemma all_bitvectors_complete (v : list bool) : In v (all_bitvectors (List.length v)).
Proof.
  induction v as [|b v IH]; [now left|]. cbn [List.length all_bitvectors].
  apply in_flat_map. exists v. split; [exact IH|]. destruct b; cbn; auto.
Qed.

Lemma all_fl_render_ok : forallb fl_render_all_ok obs_fieldlists = true /\ List.length obs_fieldlists = 3%nat.
Proof. split; vm_compute; reflexivity. Qed.

(* C15: for every field-list type and EVERY raw value the rendering names exactly the set
   fields, each once *)
Theorem fl_render_spec f : In f obs_fieldlists -> forall raw : Z,
  render_ok (f_map f) (map (fun kn => Z.testbit raw (fst kn)) (f_map f)) (fl_render (f_map f) raw) = true.
Proof.
  intros Hf raw. destruct all_fl_render_ok as [A _]. rewrite forallb_forall in A. specialize (A f Hf).
  unfold fl_render_all_ok in A. rewrite forallb_forall in A. unfold fl_render.
  apply A. set (bits := map _ _).
  replace (List.length (f_map f)) with (List.length bits) by (subst bits; apply map_length).
  apply all_bitvectors_complete.
Qed.

(* the decoded field set: exactly the documented indices, field i set iff bit i of the raw
   value is set, whatever the other bits are *)
Theorem fl_fields_spec (m : list (Z * string)) raw :
  map fst (fl_fields m raw) = map fst m /\
  forall i b, In (i, b) (fl_fields m raw) -> b = Z.testbit raw i.
Proof.
  unfold fl_fields. split.
  - rewrite map_map. reflexivity.
  - intros i b H. apply in_map_iff in H as ([k n] & E & _). cbn [fst] in E. now injection E as <- <-.
Qed.

Lemma fl_tables_ok :
  forallb (fun f => keys_increasing (-1) (f_map f) &&
                    forallb (fun kn => (0 <=? fst kn) && (fst kn <? f_bits f) && nonempty_s (snd kn)) (f_map f))
          obs_fieldlists = true.
Proof. vm_compute. reflexivity. Qed.
