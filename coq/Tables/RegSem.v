(* The Gallina vocabulary of the register-list translation (harness/cmd/gvgen reg): a state monad over
   the four sequences of a veregister.RegisterList.  No proofs here.  Import this file AFTER
   Vedirect.DrvSem: it re-binds D, ret, bind to the register-list state. *)
From GV Require Import Vedirect.DrvSem.
From GV Require Export Tables.ObsTypes Tables.Lookup Tables.RegList.
From Coq Require Import Strings.Byte.
Open Scope Z_scope.

Definition D (A : Type) := reglist -> dout A * reglist.
Definition ret {A} (a : A) : D A := fun s => (DVal a, s).
Definition bind {A B} (m : D A) (f : A -> D B) : D B :=
  fun s => match m s with
           | (DVal a, s') => f a s'
           | (DPanic, s') => (DPanic, s')
           | (DFuel, s') => (DFuel, s')
           end.

(* for _, x := range list { body } *)
Fixpoint range_list (A : Type) {V R} (l : list A) (body : A -> V -> D (lctl V R)) (v : V) : D (lres V R) :=
  match l with
  | [] => ret (LDone v)
  | x :: rest => bind (body x v) (fun c =>
                   match c with
                   | LCont v' => range_list A rest body v'
                   | LBrk v' => ret (LDone v')
                   | LRet r => ret (LReturned r)
                   end)
  end.

Definition g_len {A} (l : list A) : Z := Z.of_nat (List.length l).

(* the receiver's fields *)
Definition get_numbers : D (list reg) := fun s => (DVal (l_numbers s), s).
Definition get_texts : D (list reg) := fun s => (DVal (l_texts s), s).
Definition get_enums : D (list reg) := fun s => (DVal (l_enums s), s).
Definition get_fieldlists : D (list reg) := fun s => (DVal (l_fieldlists s), s).
Definition set_numbers (l : list reg) : D unit :=
  fun s => (DVal tt, mkRegList l (l_texts s) (l_enums s) (l_fieldlists s)).
Definition set_texts (l : list reg) : D unit :=
  fun s => (DVal tt, mkRegList (l_numbers s) l (l_enums s) (l_fieldlists s)).
Definition set_enums (l : list reg) : D unit :=
  fun s => (DVal tt, mkRegList (l_numbers s) (l_texts s) l (l_fieldlists s)).
Definition set_fieldlists (l : list reg) : D unit :=
  fun s => (DVal tt, mkRegList (l_numbers s) (l_texts s) (l_enums s) l).

(* r.Name() as a Go string *)
Definition name_bytes (r : reg) : list byte := list_byte_of_string (r_name r).

(* == on Go strings *)
Definition g_bytes_eqb (a b : list byte) : bool :=
  if list_eq_dec Byte.byte_eq_dec a b then true else false.

(* sort.SliceStable(l, func(i, j int) bool { return l[i].Sort() < l[j].Sort() }): the stable sort by key *)
Definition g_sort_stable_by_sort (l : list reg) : list reg := sort_stable l.
