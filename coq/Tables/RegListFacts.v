(* C16 proofs: the register list under any operation history, and the combined view. *)
From Coq Require Import Sorting.Permutation Sorting.Sorted.
From GV Require Import Tables.ObsTypes Tables.Lookup Tables.RegList.

Section SortByFacts.
  Context {A : Type} (key : A -> Z).

  Lemma insert_perm x l : Permutation (x :: l) (insert_by key x l).
  Proof.
    induction l as [|y r IH]; cbn [insert_by]; [reflexivity|].
    destruct (key x <=? key y); [reflexivity|].
    etransitivity; [apply perm_swap|]. now apply perm_skip.
  Qed.

  Theorem sort_by_perm l : Permutation l (sort_by key l).
  Proof.
    induction l as [|x r IH]; cbn [sort_by]; [reflexivity|].
    etransitivity; [apply perm_skip, IH|apply insert_perm].
  Qed.

  Definition le_by (a b : A) : Prop := key a <= key b.

  Lemma insert_sorted x l : Sorted le_by l -> Sorted le_by (insert_by key x l).
  Proof.
    induction l as [|y r IH]; intros H; cbn [insert_by]; [repeat constructor|].
    destruct (Z.leb_spec (key x) (key y)) as [L|G].
    - constructor; [exact H|constructor; unfold le_by; lia].
    - inversion H as [|? ? Hs Hh]; subst. constructor; [now apply IH|].
      destruct r as [|z r']; cbn [insert_by].
      + constructor. unfold le_by. lia.
      + destruct (key x <=? key z); constructor; unfold le_by.
        * lia.
        * inversion Hh; subst. assumption.
  Qed.

  Theorem sort_by_sorted l : Sorted le_by (sort_by key l).
  Proof. induction l as [|x r IH]; cbn [sort_by]; [constructor|now apply insert_sorted]. Qed.

  Definition with_key_by (k : Z) (l : list A) : list A := filter (fun r => key r =? k) l.

  Lemma insert_with_key k x l : Sorted le_by l ->
    with_key_by k (insert_by key x l) = with_key_by k (x :: l).
  Proof.
    induction l as [|y r IH]; intros H; [reflexivity|]. cbn [insert_by].
    destruct (Z.leb_spec (key x) (key y)) as [L|G]; [reflexivity|].
    inversion H as [|? ? Hs Hh]; subst.
    cbn [with_key_by filter]. unfold with_key_by in IH. rewrite (IH Hs). cbn [filter].
    destruct (key x =? k) eqn:Ex, (key y =? k) eqn:Ey; try reflexivity.
    lia.
  Qed.

  Theorem sort_by_stable k l : with_key_by k (sort_by key l) = with_key_by k l.
  Proof.
    induction l as [|x r IH]; [reflexivity|]. cbn [sort_by].
    rewrite insert_with_key by apply sort_by_sorted.
    cbn [with_key_by filter]. unfold with_key_by in IH. now rewrite IH.
  Qed.
End SortByFacts.

Definition key_le (a b : reg) : Prop := r_sort a <= r_sort b.
Definition with_key (k : Z) (l : list reg) : list reg := filter (fun r => r_sort r =? k) l.

Theorem sort_perm l : Permutation l (sort_stable l).
Proof. apply sort_by_perm. Qed.
Theorem sort_sorted l : Sorted key_le (sort_stable l).
Proof. apply (sort_by_sorted r_sort). Qed.
Theorem sort_stable_keys k l : with_key k (sort_stable l) = with_key k l.
Proof. apply (sort_by_stable r_sort). Qed.

(* ---- the list under any operation history ---- *)

(* each sequence separately: appends go to the end of the matching sequence, a filter keeps
   exactly the elements satisfying the predicate in their order *)
Definition seq_step (sel : reglist -> list reg) (kind : Z) (l : list reg) (o : rlop) : list reg :=
  match o with
  | OAppendNumbers rs => if kind =? 1 then l ++ rs else l
  | OAppendTexts rs => if kind =? 2 then l ++ rs else l
  | OAppendEnums rs => if kind =? 3 then l ++ rs else l
  | OAppendFieldLists rs => if kind =? 4 then l ++ rs else l
  | OFilter p => filter (eval_pred p) l
  | OFilterByName names => filter (fun r => negb (string_eqb_list names (r_name r))) l
  end.

Lemma rl_step_components rl o :
  l_numbers (rl_step rl o) = seq_step l_numbers 1 (l_numbers rl) o /\
  l_texts (rl_step rl o) = seq_step l_texts 2 (l_texts rl) o /\
  l_enums (rl_step rl o) = seq_step l_enums 3 (l_enums rl) o /\
  l_fieldlists (rl_step rl o) = seq_step l_fieldlists 4 (l_fieldlists rl) o.
Proof. destruct o; cbn; repeat split; reflexivity. Qed.

Theorem rl_history ops : forall rl,
  l_numbers (fold_left rl_step ops rl) = fold_left (seq_step l_numbers 1) ops (l_numbers rl) /\
  l_texts (fold_left rl_step ops rl) = fold_left (seq_step l_texts 2) ops (l_texts rl) /\
  l_enums (fold_left rl_step ops rl) = fold_left (seq_step l_enums 3) ops (l_enums rl) /\
  l_fieldlists (fold_left rl_step ops rl) = fold_left (seq_step l_fieldlists 4) ops (l_fieldlists rl).
Proof.
  induction ops as [|o ops IH]; intros rl; cbn [fold_left]; [repeat split; reflexivity|].
  destruct (rl_step_components rl o) as (E1 & E2 & E3 & E4).
  specialize (IH (rl_step rl o)). rewrite E1, E2, E3, E4 in IH. exact IH.
Qed.

(* a filter keeps exactly the satisfying elements, in order; a name filter drops exactly the named *)
Theorem filter_keeps p rl r :
  In r (rl_all (rl_step rl (OFilter p))) <-> In r (rl_all rl) /\ eval_pred p r = true.
Proof.
  unfold rl_all. cbn [rl_step rl_filter l_numbers l_texts l_enums l_fieldlists].
  rewrite !in_app_iff, !filter_In. tauto.
Qed.

Theorem filter_by_name_drops names rl r :
  In r (rl_all (rl_step rl (OFilterByName names))) <-> In r (rl_all rl) /\ string_eqb_list names (r_name r) = false.
Proof.
  unfold rl_all. cbn [rl_step rl_filter l_numbers l_texts l_enums l_fieldlists].
  rewrite !in_app_iff, !filter_In, !negb_true_iff. tauto.
Qed.

Theorem len_is_total rl : rl_len rl = List.length (rl_all rl).
Proof. unfold rl_len, rl_all. rewrite !app_length. lia. Qed.

(* the combined view: a permutation of all elements, ascending by sort key, stable *)
Theorem get_registers_spec rl :
  Permutation (rl_all rl) (rl_get_registers rl) /\
  Sorted key_le (rl_get_registers rl) /\
  forall k, with_key k (rl_get_registers rl) = with_key k (rl_all rl).
Proof.
  unfold rl_get_registers. split; [apply sort_perm|]. split; [apply sort_sorted|].
  intros k. apply sort_stable_keys.
Qed.
