(* Association tables with a default: how the generated observation tables are read. *)
From GV Require Export Tables.ObsTypes.

Fixpoint assoc {A} (k : Z) (l : list (Z * A)) : option A :=
  match l with
  | [] => None
  | (k', v) :: r => if k =? k' then Some v else assoc k r
  end.

Definition lookup {A} (d : A) (l : list (Z * A)) (k : Z) : A :=
  match assoc k l with Some v => v | None => d end.

Lemma assoc_in {A} k (l : list (Z * A)) v : assoc k l = Some v -> In (k, v) l.
Proof.
  induction l as [|[k' v'] l IH]; cbn [assoc]; [discriminate|].
  destruct (Z.eqb_spec k k') as [->|]; intros H.
  - injection H as ->. now left.
  - right. now apply IH.
Qed.

(* a property checked on every entry and on the default holds for every key *)
Lemma lookup_forall {A} (P : Z -> A -> bool) (d : A) (l : list (Z * A)) :
  forallb (fun kv => P (fst kv) (snd kv)) l = true ->
  forall k, (assoc k l = None -> P k d = true) -> P k (lookup d l k) = true.
Proof.
  intros H k Hd. unfold lookup. destruct (assoc k l) as [v|] eqn:E; [|now apply Hd].
  apply assoc_in in E. rewrite forallb_forall in H. exact (H (k, v) E).
Qed.

(* strictly increasing keys: the table is a function *)
Fixpoint keys_increasing {A} (prev : Z) (l : list (Z * A)) : bool :=
  match l with
  | [] => true
  | (k, _) :: r => (prev <? k) && keys_increasing k r
  end.

Fixpoint string_eqb_list (l : list string) (s : string) : bool :=
  match l with [] => false | x :: r => String.eqb x s || string_eqb_list r s end.
