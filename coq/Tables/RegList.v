(* C16: veregister.RegisterList as four ordered sequences; model of registerList.go and
   filter.go.  No proofs here. *)
From GV Require Export Tables.ObsTypes Tables.Lookup.

(* a predicate on registers, from the families the harness uses *)
Inductive rpred :=
| PNameIn (names : list string)        (* keep registers whose name is in the set *)
| PNameNotIn (names : list string)
| PAddrEven | PAddrOdd
| PKind (k : Z)                        (* keep one kind *)
| PSortBelow (k : Z)                   (* keep sort < k *)
| PStatic | PWritable
| PTrue | PFalse.

Definition eval_pred (p : rpred) (r : reg) : bool :=
  match p with
  | PNameIn ns => string_eqb_list ns (r_name r)
  | PNameNotIn ns => negb (string_eqb_list ns (r_name r))
  | PAddrEven => Z.even (r_addr r)
  | PAddrOdd => Z.odd (r_addr r)
  | PKind k => r_kind r =? k
  | PSortBelow k => r_sort r <? k
  | PStatic => r_static r
  | PWritable => r_writable r
  | PTrue => true
  | PFalse => false
  end.

Inductive rlop :=
| OAppendNumbers (rs : list reg) | OAppendTexts (rs : list reg)
| OAppendEnums (rs : list reg) | OAppendFieldLists (rs : list reg)
| OFilter (p : rpred)                  (* FilterRegister *)
| OFilterByName (names : list string). (* FilterByName *)

Definition rl_empty : reglist := mkRegList [] [] [] [].

Definition rl_filter (f : reg -> bool) (rl : reglist) : reglist :=
  mkRegList (filter f (l_numbers rl)) (filter f (l_texts rl)) (filter f (l_enums rl)) (filter f (l_fieldlists rl)).

Definition rl_step (rl : reglist) (o : rlop) : reglist :=
  match o with
  | OAppendNumbers rs => mkRegList (l_numbers rl ++ rs) (l_texts rl) (l_enums rl) (l_fieldlists rl)
  | OAppendTexts rs => mkRegList (l_numbers rl) (l_texts rl ++ rs) (l_enums rl) (l_fieldlists rl)
  | OAppendEnums rs => mkRegList (l_numbers rl) (l_texts rl) (l_enums rl ++ rs) (l_fieldlists rl)
  | OAppendFieldLists rs => mkRegList (l_numbers rl) (l_texts rl) (l_enums rl) (l_fieldlists rl ++ rs)
  | OFilter p => rl_filter (eval_pred p) rl
  | OFilterByName names => rl_filter (fun r => negb (string_eqb_list names (r_name r))) rl
  end.

Definition rl_run (ops : list rlop) : reglist := fold_left rl_step ops rl_empty.

Definition rl_len (rl : reglist) : nat :=
  (List.length (l_numbers rl) + List.length (l_texts rl) + List.length (l_enums rl) + List.length (l_fieldlists rl))%nat.

Definition rl_all (rl : reglist) : list reg :=
  l_numbers rl ++ l_texts rl ++ l_enums rl ++ l_fieldlists rl.

(* sort.SliceStable by a key: insertion sort; the head is inserted before the already
   sorted later elements with an equal key, so equal keys keep their input order *)
Section SortBy.
  Context {A : Type} (key : A -> Z).
  Fixpoint insert_by (x : A) (l : list A) : list A :=
    match l with
    | [] => [x]
    | y :: r => if key x <=? key y then x :: l else y :: insert_by x r
    end.
  Fixpoint sort_by (l : list A) : list A :=
    match l with
    | [] => []
    | x :: r => insert_by x (sort_by r)
    end.
End SortBy.

Definition sort_stable (l : list reg) : list reg := sort_by r_sort l.

(* GetRegisters *)
Definition rl_get_registers (rl : reglist) : list reg := sort_stable (rl_all rl).
