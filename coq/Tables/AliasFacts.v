(* C17: soundness of the alias check.  A function accepted by fun_ok returns, on every run of
   its flattened body, only objects allocated during that very call; it never stores into a
   package-level variable, and the only objects it writes to are those it allocated.  Hence
   what it hands out is private to the caller: no other caller and no package-level variable
   holds it, and nothing the caller does to it can be seen by later calls. *)
From GV Require Import Tables.Alias.
Local Open Scope string_scope.

Section Sound.
  Context (fresh : list string) (o : call_oracle) (Ho : oracle_ok fresh o) (body : list astmt) (s0 : astate).

  (* the invariant of a run that started in s0 *)
  Definition inv (s : astate) : Prop :=
    globals s = globals s0 /\ next s0 <= next s /\
    (forall x l, lookup_s x (locals s) = Some l -> next s0 <= l < next s) /\
    (forall l, In l (returned s) -> In l (returned s0) \/ next s0 <= l < next s) /\
    (forall l, In l (written s) -> In l (written s0) \/ next s0 <= l < next s).

  Lemma eval_allocates s e : expr_allocates fresh e = true -> inv s ->
    exists l s1, eval o s e = (Some l, s1) /\ next s <= l < next s1 /\
                 locals s1 = locals s /\ globals s1 = globals s /\ written s1 = written s /\ returned s1 = returned s.
  Proof.
    intros He _. destruct e as [|x|g|f|]; cbn [expr_allocates] in He; try discriminate He.
    - eexists _, _. split; [reflexivity|]. cbn. repeat split; lia.
    - cbn [eval]. destruct (Ho f (next s)) as [Hm Hf]. specialize (Hf He).
      destruct (o f (next s)) as [l n']. cbn [fst snd] in *.
      eexists _, _. split; [reflexivity|]. cbn. repeat split; lia.
  Qed.

  Lemma lookup_cons x y l r : lookup_s x ((y, l) :: r) = if String.eqb x y then Some l else lookup_s x r.
  Proof. reflexivity. Qed.

  Lemma step_inv s st : stmt_ok fresh body st = true -> inv s -> inv (exec o s st).
  Proof.
    intros Hok (Hg & Hn & Hl & Hr & Hw). destruct st as [x e|g e|x|g|e|why]; cbn [stmt_ok] in Hok; try discriminate Hok.
    - (* SAssign *)
      cbn [assign_ok] in Hok. apply orb_prop in Hok as [Ha|Hs].
      + destruct (eval_allocates s e Ha (conj Hg (conj Hn (conj Hl (conj Hr Hw))))) as (l & s1 & E & Hb & L1 & G1 & W1 & R1).
        cbn [exec]. rewrite E. unfold inv. cbn [locals globals written next returned].
        rewrite G1, W1, R1, L1. split; [exact Hg|]. split; [lia|]. split.
        * intros y l'. rewrite lookup_cons. destruct (String.eqb y x).
          -- intros H. injection H as <-. lia.
          -- intros H. specialize (Hl _ _ H). lia.
        * split; intros l' H; [destruct (Hr _ H)|destruct (Hw _ H)]; auto; right; lia.
      + destruct e as [|y| | |]; try discriminate Hs. apply String.eqb_eq in Hs. subst y.
        cbn [exec eval]. destruct (lookup_s x (locals s)) as [l|] eqn:E.
        * unfold inv. cbn [locals globals written next returned]. split; [exact Hg|]. split; [exact Hn|]. split.
          -- intros y l'. rewrite lookup_cons. destruct (String.eqb y x); [intros H; injection H as <-; now apply (Hl x)|apply Hl].
          -- split; assumption.
        * exact (conj Hg (conj Hn (conj Hl (conj Hr Hw)))).
    - (* SWriteElem *)
      cbn [exec]. destruct (lookup_s x (locals s)) as [l|] eqn:E; [|exact (conj Hg (conj Hn (conj Hl (conj Hr Hw))))].
      unfold inv. cbn [locals globals written next returned]. split; [exact Hg|]. split; [exact Hn|]. split; [exact Hl|].
      split; [exact Hr|]. intros l' [<-|H]; [right; now apply (Hl x)|now apply Hw].
    - (* SReturn *)
      apply orb_prop in Hok as [Ha|Hs].
      + destruct (eval_allocates s e Ha (conj Hg (conj Hn (conj Hl (conj Hr Hw))))) as (l & s1 & E & Hb & L1 & G1 & W1 & R1).
        cbn [exec]. rewrite E. unfold inv. cbn [locals globals written next returned].
        rewrite G1, W1, R1, L1. split; [exact Hg|]. split; [lia|]. split.
        * intros y l' H. specialize (Hl _ _ H). lia.
        * split.
          -- intros l' [<-|H]; [right; lia|destruct (Hr _ H); auto; right; lia].
          -- intros l' H. destruct (Hw _ H); auto; right; lia.
      + destruct e as [|x| | |]; try discriminate Hs.
        cbn [exec eval]. destruct (lookup_s x (locals s)) as [l|] eqn:E; [|exact (conj Hg (conj Hn (conj Hl (conj Hr Hw))))].
        unfold inv. cbn [locals globals written next returned]. split; [exact Hg|]. split; [exact Hn|]. split; [exact Hl|].
        split; [|exact Hw]. intros l' [<-|H]; [right; now apply (Hl x)|now apply Hr].
  Qed.

  Theorem run_inv trace : Forall (fun st => stmt_ok fresh body st = true) trace ->
    forall s, inv s -> inv (run_trace o s trace).
  Proof.
    unfold run_trace. induction 1 as [|st trace Hst _ IH]; intros s Hs; cbn [fold_left]; [exact Hs|].
    apply IH. now apply step_inv.
  Qed.
End Sound.

(* C17 for one accepted function: any run of its flattened body from a state in which no
   local is bound yet *)
Theorem fun_ok_sound fresh o (f : afun) s0 trace :
  oracle_ok fresh o -> fun_ok fresh f = true ->
  Forall (fun st => In st (af_body f)) trace ->
  locals s0 = [] -> returned s0 = [] ->
  let s := run_trace o s0 trace in
  globals s = globals s0 /\                                        (* nothing is stored in a package-level variable *)
  (forall l, In l (returned s) -> next s0 <= l < next s) /\        (* what is returned was allocated by this call *)
  (forall l, In l (written s) -> In l (written s0) \/ next s0 <= l < next s).   (* nothing older is written to *)
Proof.
  intros Ho Hf Htr Hl Hr. cbv zeta.
  assert (Hall : Forall (fun st => stmt_ok fresh (af_body f) st = true) trace).
  { unfold fun_ok in Hf. rewrite forallb_forall in Hf. apply Forall_forall. intros st Hin.
    apply Hf. rewrite Forall_forall in Htr. now apply Htr. }
  assert (I0 : inv s0 s0).
  { unfold inv. split; [reflexivity|]. split; [lia|]. split; [rewrite Hl; intros x l H; discriminate H|].
    split; intros l H; now left. }
  destruct (run_inv fresh o Ho (af_body f) s0 trace Hall s0 I0) as (Hg & Hn & _ & Hret & Hw).
  split; [exact Hg|]. split; [|exact Hw].
  intros l H. destruct (Hret l H) as [H0|H0]; [rewrite Hr in H0; destruct H0|exact H0].
Qed.

(* the whole translated library at once: if the check accepts every function, each of them
   has the property above, relative to an oracle that answers calls of accepted functions with
   objects they allocated — which is this very conclusion for the callee (the accepted set is
   built in rounds, callees first) *)
Theorem all_fresh_sound (fs : list afun) o f s0 trace :
  all_fresh fs = true -> In f fs -> oracle_ok (fresh_set fs) o ->
  Forall (fun st => In st (af_body f)) trace -> locals s0 = [] -> returned s0 = [] ->
  let s := run_trace o s0 trace in
  globals s = globals s0 /\
  (forall l, In l (returned s) -> next s0 <= l < next s) /\
  (forall l, In l (written s) -> In l (written s0) \/ next s0 <= l < next s).
Proof.
  intros Hall Hin Ho Htr Hl Hr. unfold all_fresh in Hall. rewrite forallb_forall in Hall.
  exact (fun_ok_sound (fresh_set fs) o f s0 trace Ho (Hall f Hin) Htr Hl Hr).
Qed.

(* the check is not vacuous: handing out a package-level map, caching the map that is handed
   out, and writing into a package-level map are all rejected *)
Example leaks_are_rejected :
  fun_ok [] (mkAfun "f" [SReturn (AGlobal "m")]) = false /\
  fun_ok [] (mkAfun "g" [SAssign "ret" AMake; SWriteElem "ret"; SStoreGlobal "cache" (AVar "ret"); SReturn (AVar "ret")]) = false /\
  fun_ok [] (mkAfun "h" [SWriteGlobalElem "m"; SAssign "r" AMake; SReturn (AVar "r")]) = false /\
  fun_ok [] (mkAfun "p" [SReturn (AVar "param")]) = false /\
  fun_ok [] (mkAfun "ok" [SAssign "ret" AMake; SWriteElem "ret"; SReturn (AVar "ret")]) = true.
Proof. repeat split; reflexivity. Qed.
