(* C18dbg -- vd.debugPrintf (vedirect/logging.go) translated on every run into Gen/DbgImpl.v (tie T-gen).  Its
   calls are dropped from the driver translation; these theorems are what justifies that.  Only statements,
   `exact` and Print Assumptions. *)
From GV Require Import Vedirect.DrvSem Vedirect.DbgSem Gen.DbgImpl Vedirect.DbgFacts.
Import ListNotations.
Local Open Scope Z_scope.

(* for every format string: the indentation counter stays within 0..64, the call returns (strings.Repeat never
   sees a negative count), exactly one line goes to the debug logger when one is set and nothing happens at all
   when none is *)
Theorem C18_dbg_debugPrintf : forall c fmt s, 0 <= dbg_indent s <= 64 ->
  exists s', go_debugPrintf c fmt s = (DVal tt, s') /\ 0 <= dbg_indent s' <= 64 /\
             dbg_lines s' = (if cfg_debug c then S (dbg_lines s) else dbg_lines s).
Proof. exact go_debugPrintf_inv. Qed.
Print Assumptions C18_dbg_debugPrintf.

(* any sequence of debug lines on a fresh driver: never a panic *)
Theorem C18_dbg_never_panics : forall c fmts,
  exists s', debug_lines c fmts (mkDbg 0 0) = (DVal tt, s') /\ 0 <= dbg_indent s' <= 64.
Proof. exact debug_lines_never_panic. Qed.
Print Assumptions C18_dbg_never_panics.
