(* C14 — enumerations: construction, index and name agree for every integer. *)
From GV Require Import Tables.ObsTypes Tables.Lookup Gen.ObsEnum Tables.Enum Tables.EnumFacts.

(* for every factory and EVERY integer v *)
Theorem C14_new_enum : forall e, In e obs_enums -> forall v : Z,
  match new_enum (e_map e) v with
  | Some (i, n) => assoc v (e_map e) = Some n /\ i = v /\ n <> ""%string
  | None => assoc v (e_map e) = None
  end.
Proof. exact new_enum_spec. Qed.
Print Assumptions C14_new_enum.

(* the code implements that model: typed constructors on all 256 bytes, NewEnum on all
   integers of [-70000, 70000] and around +-2^16, 2^24, 2^31, 2^32, 2^40, 2^62, 2^63
   (regenerated observation), for all 20 factories *)
Theorem C14_observed : forallb enum_obs_ok obs_enums = true /\ List.length obs_enums = 20%nat.
Proof. exact all_enum_obs_ok. Qed.
Print Assumptions C14_observed.
