(* C20api -- the property's anchored source (vedirectapi/registerApi.go) translated on every run into
   Gen/ApiImpl.v and proved equal in behaviour to the hand-written model Api/Api.v (tie T-gen).  Only
   statements, `exact` and Print Assumptions. *)
From Coq Require Import QArith.
From GV Require Import Vedirect.DrvSem Gen.DrvImpl Vedirect.DrvRefine Api.ApiSem Gen.ApiImpl Api.ApiRefine
     Api.ApiRefineTables Api.ApiProps Api.ApiValueFacts Api.ApiMapsRefine.
Import ListNotations.
Local Open Scope Z_scope.

(* RegisterValues.GetList of the translated source (what the CLI prints, in this order): for EVERY order in which the
   four maps are visited the list holds every fetched value exactly once and is ordered by non-decreasing sort key *)
Theorem C20_api_GetList : forall rv o1 o2 o3 o4 s,
  exists l, go_GetList rv o1 o2 o3 o4 s = (DVal l, s) /\
            Sorting.Permutation.Permutation (all_values rv) l /\
            Sorting.Sorted.Sorted (GV.Tables.RegListFacts.le_by value_key) l.
Proof. exact go_GetList_spec. Qed.
Print Assumptions C20_api_GetList.

