(* C16 — a register list behaves as four ordered sequences under any operation history. *)
From Coq Require Import Sorting.Permutation Sorting.Sorted.
From GV Require Import Tables.ObsTypes Tables.Lookup Tables.RegList Tables.RegListFacts.

(* after ANY sequence of operations each of the four sequences is what a plain list would
   hold: appends at the end of the matching sequence, filters keep the satisfying elements
   in their order *)
Theorem C16_history : forall ops rl,
  l_numbers (fold_left rl_step ops rl) = fold_left (seq_step l_numbers 1) ops (l_numbers rl) /\
  l_texts (fold_left rl_step ops rl) = fold_left (seq_step l_texts 2) ops (l_texts rl) /\
  l_enums (fold_left rl_step ops rl) = fold_left (seq_step l_enums 3) ops (l_enums rl) /\
  l_fieldlists (fold_left rl_step ops rl) = fold_left (seq_step l_fieldlists 4) ops (l_fieldlists rl).
Proof. exact rl_history. Qed.
Print Assumptions C16_history.

Theorem C16_filter : forall p rl r,
  In r (rl_all (rl_step rl (OFilter p))) <-> In r (rl_all rl) /\ eval_pred p r = true.
Proof. exact filter_keeps. Qed.
Print Assumptions C16_filter.

Theorem C16_filter_by_name : forall names rl r,
  In r (rl_all (rl_step rl (OFilterByName names))) <-> In r (rl_all rl) /\ string_eqb_list names (r_name r) = false.
Proof. exact filter_by_name_drops. Qed.
Print Assumptions C16_filter_by_name.

Theorem C16_len : forall rl, rl_len rl = List.length (rl_all rl).
Proof. exact len_is_total. Qed.
Print Assumptions C16_len.

(* the combined view is a permutation of all elements, ascending by sort key, and stable:
   for every key the elements with that key keep their order *)
Theorem C16_get_registers : forall rl,
  Permutation (rl_all rl) (rl_get_registers rl) /\
  Sorted key_le (rl_get_registers rl) /\
  forall k, with_key k (rl_get_registers rl) = with_key k (rl_all rl).
Proof. exact get_registers_spec. Qed.
Print Assumptions C16_get_registers.
