(* C20 — the CLI reports what the device holds, end to end. *)
From Coq Require Import Sorting.Permutation Sorting.Sorted.
From GV Require Import Api.Api Api.ApiFacts Api.Cli Api.CliFacts Tables.RegList Tables.RegListFacts.

(* a device of a supported product answering every request: the count line, then one line
   per register of the product's list (C11/C12), values as the readers define them (C09),
   non-decreasing sort keys *)
Theorem C20_output : forall c s id rl s1 delivered s2,
  connect c s = (Connected id rl, s1) ->
  stream_register_list c all_handlers rl None s1 = (SDone, delivered, s2) ->
  exists vals,
    fst (cli_run c s) = LFetched (List.length vals) :: map (fun p => LValue (fst p) (snd p)) vals /\
    Permutation (dedup_last delivered) vals /\
    Sorted (fun a b => r_sort (fst a) <= r_sort (fst b)) vals /\
    map fst delivered = stream_plan all_handlers rl.
Proof. exact cli_output_ok. Qed.
Print Assumptions C20_output.

Theorem C20_silent_during_connect : forall c s,
  (forall id rl, fst (connect c s) <> Connected id rl) -> fst (cli_run c s) = [LErrorCreatingApi].
Proof. exact cli_connect_fails. Qed.
Print Assumptions C20_silent_during_connect.

Theorem C20_silent_after_connect : forall c s id rl s1 e delivered s2,
  connect c s = (Connected id rl, s1) ->
  stream_register_list c all_handlers rl None s1 = (e, delivered, s2) -> e <> SDone ->
  fst (cli_run c s) = [LErrorFetching; LFetched 0].
Proof. exact cli_fetch_fails. Qed.
Print Assumptions C20_silent_after_connect.

(* %f.  A number line shows the float64 of C09 rounded to six decimals: for a finite value
   m * 2^e the printed magnitude, in millionths, is m * 2^e * 10^6 exactly (e >= 0) or
   rhe (m * 10^6) (2^-e), and rhe is rounding to the nearest integer with ties to even *)
From Coq Require Import ZArith.
From Flocq Require Import Core IEEE754.BinarySingleNaN IEEE754.Binary IEEE754.Bits.
From GV Require Import Api.Float Api.Fixed Api.FixedFacts.

Theorem C20_fixed6_value : forall s m e H,
  fixed6_of_f64 (B754_finite 53 1024 s m e H) =
  Some (s, if (0 <=? e)%Z then (Zpos m * 2 ^ e * 1000000)%Z else rhe (Zpos m * 1000000) (2 ^ (- e))).
Proof. exact fixed6_finite. Qed.
Print Assumptions C20_fixed6_value.

Theorem C20_fixed6_rounding : forall num den, (0 < den)%Z ->
  (2 * Z.abs (num - rhe num den * den) <= den)%Z /\
  ((2 * Z.abs (num - rhe num den * den) = den)%Z -> Z.even (rhe num den) = true).
Proof. exact rhe_spec. Qed.
Print Assumptions C20_fixed6_rounding.
