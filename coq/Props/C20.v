(* C20 — the CLI reports what the device holds, end to end. *)
From Coq Require Import Sorting.Permutation Sorting.Sorted.
From GV Require Import Api.Api Api.ApiFacts Api.Cli Api.CliFacts Tables.RegList Tables.RegListFacts.

(* a device of a supported product answering every request: the count line, then one line
   per register of the product's list (C11/C12), values as the readers define them (C09),
   non-decreasing sort keys *)
Theorem C20_output : forall c s id rl s1 delivered s2,
  connect c s = (Connected id rl, s1) ->
  stream_register_list c all_handlers rl None s1 = (SDone, delivered, s2) ->
  exists vals,
    fst (cli_run c s) = LFetched (List.length vals) :: map (fun p => LValue (fst p) (snd p)) vals /\
    Permutation (dedup_last delivered) vals /\
    Sorted (fun a b => r_sort (fst a) <= r_sort (fst b)) vals /\
    map fst delivered = stream_plan all_handlers rl.
Proof. exact cli_output_ok. Qed.
Print Assumptions C20_output.

Theorem C20_silent_during_connect : forall c s,
  (forall id rl, fst (connect c s) <> Connected id rl) -> fst (cli_run c s) = [LErrorCreatingApi].
Proof. exact cli_connect_fails. Qed.
Print Assumptions C20_silent_during_connect.

Theorem C20_silent_after_connect : forall c s id rl s1 e delivered s2,
  connect c s = (Connected id rl, s1) ->
  stream_register_list c all_handlers rl None s1 = (e, delivered, s2) -> e <> SDone ->
  fst (cli_run c s) = [LErrorFetching; LFetched 0].
Proof. exact cli_fetch_fails. Qed.
Print Assumptions C20_silent_after_connect.
