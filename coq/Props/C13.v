(* C13 — the product table is internally coherent for all ids. *)
From GV Require Import Tables.ObsTypes Tables.Lookup Gen.Obs Tables.Product Tables.ProductFacts.

(* for all 65536 ids (the table is the complete, regenerated observation of every accessor):
   known iff non-empty model iff known type iff present in the string map; display string =
   type name + space + model = map entry; exactly one category, consistent with the id
   range; panel voltage/current -1 for non-solar products and otherwise the two numbers of
   the model designation; Phoenix inverter model strings agree with the id digits *)
Theorem C13_coherent : forall id, 0 <= id < 65536 -> c13_ok id (obs_product id) = true.
Proof. exact c13_all_products. Qed.
Print Assumptions C13_coherent.

Theorem C13_types : forall t, 0 <= t < 256 -> c13_type_ok t (obs_type t) = true.
Proof. exact c13_all_types. Qed.
Print Assumptions C13_types.

(* the table is a function of the id (strictly increasing keys within 0..65535), the two
   enumeration passes (ascending/descending) agree, and the string map has exactly one entry
   per known product *)
Theorem C13_table_wellformed :
  keys_increasing (-1) obs_products = true /\
  forallb (fun kv => (0 <=? fst kv) && (fst kv <? 65536)) obs_products = true /\
  obs_product_stable = true /\
  obs_stringmap_size = Z.of_nat (List.length (filter (fun kv => p_exists (snd kv)) obs_products)) /\
  c13_ok 0 obs_product_default = true.
Proof. exact products_table_wellformed. Qed.
Print Assumptions C13_table_wellformed.
