(* C14enum -- every NewEnum / NewFieldList of package veconst translated on every run into Gen/EnumImpl.v and
   proved equal to the model of Tables/Enum.v for every integer (tie T-gen; the typed constructor New is the
   regenerated observation of all 256 bytes).  Only statements, `exact` and Print Assumptions. *)
From GV Require Import Vedirect.DrvSem Tables.EnumSem Gen.EnumImpl Tables.EnumRefine.
Import ListNotations.
Local Open Scope Z_scope.

Theorem C14_src_all_new_enum :
  Forall (fun p => forall v s, snd p v s = (DVal (new_enum_model (fst p) v), s)) all_new_enum.
Proof. exact all_new_enum_refine. Qed.
Print Assumptions C14_src_all_new_enum.

Theorem C14_src_all_new_enum_complete :
  forallb (fun e => existsb (String.eqb (e_name e)) (map fst all_new_enum)) obs_enums = true.
Proof. exact all_new_enum_complete. Qed.
Print Assumptions C14_src_all_new_enum_complete.

(* the property on the translated source: for every enumeration and EVERY integer v construction succeeds iff
   v is a key of the index-to-name map -- then index v and the mapped name -- and otherwise ErrInvalidEnumIdx *)
Theorem C14_src_new_enum_iff : forall name f, In (name, f) all_new_enum -> forall e, enum_of name = Some e -> forall v s,
  match assoc v (e_map e) with
  | Some n => 0 <= v <= 255 -> f v s = (DVal ((v, n), None), s)
  | None => f v s = (DVal ((0, EmptyString), Some EInvalidEnumIdx), s)
  end.
Proof. exact src_new_enum_iff. Qed.
Print Assumptions C14_src_new_enum_iff.

