(* C15api -- the property's anchored source (vedirectapi/registerApi.go) translated on every run into
   Gen/ApiImpl.v and proved equal in behaviour to the hand-written model Api/Api.v (tie T-gen).  Only
   statements, `exact` and Print Assumptions. *)
From Coq Require Import QArith.
From GV Require Import Vedirect.DrvSem Gen.DrvImpl Vedirect.DrvRefine Api.ApiSem Gen.ApiImpl Api.ApiRefine
     Api.ApiRefineTables Api.ApiProps Api.ApiValueFacts Api.ApiMapsRefine.
Import ListNotations.
Local Open Scope Z_scope.

Theorem C15_api_ReadFieldListRegister : forall c r v idle hist cn, r_kind r = 4 -> addr_ok r ->
  read_rel (fun fs rv => rv = RVFields fs) (go_ReadFieldListRegister c r (mkA (mkD v idle) hist cn))
           (read_register c idle r v) hist cn.
Proof. exact go_ReadFieldListRegister_refines. Qed.
Print Assumptions C15_api_ReadFieldListRegister.

(* the property on the translated source: the field set is the bit set of the unsigned value the
   driver read, cut to the width of the type *)
Theorem C15_api_fieldlist_bits : forall c r v idle hist cn fs sa, r_kind r = 4 -> addr_ok r ->
  go_ReadFieldListRegister c r (mkA (mkD v idle) hist cn) = (DVal (fs, None), sa) ->
  exists n v1 f, get_uint c idle (r_addr r) v = (Ok (VNum n), v1) /\ fl_of (r_factory r) = Some f /\
                 fs = fl_fields (f_map f) (n mod 2 ^ f_bits f).
Proof. exact src_fieldlist_bits. Qed.
Print Assumptions C15_api_fieldlist_bits.

(* THE RENDERING CLAUSE of the property on the translated source: for every field-list type of the tables,
   every raw value and EVERY order in which `range` may visit the field map (every permutation is a
   shuffle: shuffle_surjective), CommaString names exactly the set fields, each once, by ascending index --
   the model's fl_render -- and is therefore identical every time it is produced *)
Theorem C15_api_CommaString : forall f r raw ord s, In f obs_fieldlists -> fl_of (r_factory r) = Some f ->
  go_CommaString (mkFlv r (fl_fields (f_map f) raw)) ord s
  = (DVal (list_byte_of_string (fl_render (f_map f) raw)), s).
Proof. exact go_CommaString_spec. Qed.
Print Assumptions C15_api_CommaString.

Theorem C15_api_CommaString_deterministic : forall f r raw ord1 ord2 s, In f obs_fieldlists -> fl_of (r_factory r) = Some f ->
  go_CommaString (mkFlv r (fl_fields (f_map f) raw)) ord1 s = go_CommaString (mkFlv r (fl_fields (f_map f) raw)) ord2 s.
Proof. exact go_CommaString_deterministic. Qed.
Print Assumptions C15_api_CommaString_deterministic.

Theorem C15_api_every_map_order : forall (l l' : list ((Z * string) * bool)),
  Sorting.Permutation.Permutation l l' -> exists ks, shuffle ks l = l'.
Proof. exact (@shuffle_surjective ((Z * string) * bool)). Qed.
Print Assumptions C15_api_every_map_order.

