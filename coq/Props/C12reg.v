(* C12reg -- the property's anchored source (veregister/registerList.go, filter.go) translated on every run into
   Gen/RegImpl.v and proved equal to the four-sequence model Tables/RegList.v (tie T-gen).  Only statements,
   `exact` and Print Assumptions. *)
From Coq Require Import Strings.Byte.
From GV Require Import Vedirect.DrvSem Tables.RegSem Gen.RegImpl Tables.RegListFacts Tables.RegRefine.
Import ListNotations.
Local Open Scope Z_scope.

(* the generic filter keeps exactly the elements satisfying the predicate, in their order *)
Theorem C12_reg_filterRegisters : forall inp f p s, pure_pred f p ->
  go_filterRegisters inp f s = (DVal (filter p inp), s).
Proof. exact go_filterRegisters_spec. Qed.
Print Assumptions C12_reg_filterRegisters.

Theorem C12_reg_FilterRegister : forall f p rl, pure_pred f p ->
  go_FilterRegister f rl = (DVal tt, rl_filter p rl).
Proof. exact go_FilterRegister_spec. Qed.
Print Assumptions C12_reg_FilterRegister.

(* name filters drop exactly the named registers, of every kind *)
Theorem C12_reg_FilterByName : forall names rl,
  go_FilterByName (map list_byte_of_string names) rl = (DVal tt, rl_step rl (OFilterByName names)).
Proof. exact go_FilterByName_spec. Qed.
Print Assumptions C12_reg_FilterByName.

