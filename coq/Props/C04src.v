(* C04src -- the property's anchored source (package vedirect) translated on every run into
   Gen/DrvImpl.v and proved equal in behaviour to the hand-written model (tie T-gen).  Only statements,
   `exact` and Print Assumptions. *)
From GV Require Import Vedirect.DrvSem Gen.DrvImpl Base.HexFacts Vedirect.FrameFacts Vedirect.PortFacts
     Vedirect.DriverFacts Vedirect.DriverSpec Vedirect.DrvRefine Vedirect.DrvProps.
Import ListNotations.
Local Open Scope Z_scope.

Theorem C04_src_VeCommandGet : forall c addr v idle, 0 <= addr < 65536 ->
  exists o idle', go_VeCommandGet c addr (mkD v idle) = (o, mkD (snd (ve_command_get c idle addr v)) idle')
            /\ res_rel o (fst (ve_command_get c idle addr v))
            /\ (o <> DPanic -> o <> DFuel -> idle' = false).
Proof. exact go_VeCommandGet_spec. Qed.
Print Assumptions C04_src_VeCommandGet.

Theorem C04_src_sendReceive : forall c cmd data v idle, 0 <= cmd < 256 ->
  go_sendReceive c cmd data (mkD v idle)
  = (plain_out (fst (send_receive c idle cmd data v)), mkD (snd (send_receive c idle cmd data v)) false).
Proof. exact go_sendReceive_spec. Qed.
Print Assumptions C04_src_sendReceive.

Theorem C04_src_receiveResponse : forall c v idle,
  go_receiveResponse c (mkD v idle)
  = (plain_out (fst (receive_response (rr_fuel v) c v)), mkD (snd (receive_response (rr_fuel v) c v)) idle).
Proof. exact go_receiveResponse_spec. Qed.
Print Assumptions C04_src_receiveResponse.

Theorem C04_src_flushReceiver : forall c v idle,
  go_flushReceiver c (mkD v idle) = (DVal tt, mkD (flush_receiver v) idle).
Proof. exact go_flushReceiver_spec. Qed.
Print Assumptions C04_src_flushReceiver.

Theorem C04_src_recvUntil : forall c needle v idle,
  exists o, go_recvUntil c needle (mkD v idle) = (o, mkD (snd (recv_until c (zb needle) v)) idle)
            /\ res_rel o (fst (recv_until c (zb needle) v)).
Proof. exact go_recvUntil_spec. Qed.
Print Assumptions C04_src_recvUntil.

