(* C17 — lookup data handed out by the library cannot be corrupted by callers. *)
From Coq Require Import List.
From GV Require Import Tables.Copies.

(* In the object-identity model of the copy discipline (each lookup allocates a fresh
   object holding a copy of the library's table; callers address objects only): for every
   history of lookups and arbitrary caller mutations, every lookup returns the original data.
   Partial by nature: that the Go code follows this discipline (no shared backing arrays or
   maps) is established by the correspondence run, not by this theorem. *)
Theorem C17_private_partial :
  forall (data : Type) (s : @lib data) (ops : list cop) out,
    In (Some out) (crun s ops) -> out = master s.
Proof. intros data. exact copies_private. Qed.
Print Assumptions C17_private_partial.
