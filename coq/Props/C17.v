(* C17 — lookup data handed out by the library cannot be corrupted by callers. *)
From Coq Require Import List.
From GV Require Import Tables.Copies Tables.Alias Tables.AliasFacts Tables.AliasClosed Gen.AliasGen Tables.AliasGenFacts.

(* In the object-identity model of the copy discipline (each lookup allocates a fresh
   object holding a copy of the library's table; callers address objects only): for every
   history of lookups and arbitrary caller mutations, every lookup returns the original data.
   Partial by nature: that the Go code follows this discipline (no shared backing arrays or
   maps) is established by the correspondence run, not by this theorem. *)
Theorem C17_private_partial :
  forall (data : Type) (s : @lib data) (ops : list cop) out,
    In (Some out) (crun s ops) -> out = master s.
Proof. intros data. exact copies_private. Qed.
Print Assumptions C17_private_partial.

(* TIE T-gen.  alias_functions is the alias IR of every function of veproduct and veconst
   that returns a map or a slice, transcribed from the current source on every run.  The
   check accepts all of them ... *)
Theorem C17_lookups_fresh : all_fresh alias_functions = true.
Proof. exact lookups_all_fresh. Qed.
Print Assumptions C17_lookups_fresh.

(* ... they include the product string map, IntToStringMap of every enum and field-list
   factory of the observation tables, and the Fields/Decode methods ... *)
Theorem C17_lookups_covered : covered = true.
Proof. exact lookups_covered. Qed.
Print Assumptions C17_lookups_covered.

(* ... and an accepted function, on every run of its flattened body (its statements in any
   order, any number of times — every loop and branch structure), leaves the package-level
   variables as they were, returns only objects it allocated itself, and writes to no object
   that existed before: the map a caller receives is reachable from nowhere else, so nothing a
   caller does to it is visible to any later call. *)
Theorem C17_fresh_sound : forall (fs : list afun) o f s0 trace,
  all_fresh fs = true -> In f fs -> oracle_ok (fresh_set fs) o ->
  Forall (fun st => In st (af_body f)) trace -> locals s0 = [] -> returned s0 = [] ->
  let s := run_trace o s0 trace in
  globals s = globals s0 /\
  (forall l, In l (returned s) -> next s0 <= l < next s) /\
  (forall l, In l (written s) -> In l (written s0) \/ next s0 <= l < next s).
Proof. exact all_fresh_sound. Qed.
Print Assumptions C17_fresh_sound.

(* Closed over calls: at any call depth, whatever a function of the translated library may
   return — its flattened body run in any order, its callees returning whatever they may
   return — is an object allocated by that very call. *)
Theorem C17_lookups_return_fresh_objects :
  forall d f n l n', call_result alias_functions d f n l n' -> n <= l < n'.
Proof. exact (call_results_are_fresh alias_functions lookups_all_fresh). Qed.
Print Assumptions C17_lookups_return_fresh_objects.
