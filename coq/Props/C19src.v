(* C19src -- the advertisement handler, PKCS7Padding, bluezAddrBytes and getDeviceConfig of /repo/ble/ble.go translated
   on every run into Gen/BleHandlerImpl.v and proved against the model Ble/Handler.v (tie T-gen).  Only statements,
   `exact` and Print Assumptions. *)
From GV Require Import Vedirect.DrvSem Ble.BleSem Gen.BleHandlerImpl Ble.BleHandlerRefine.
From GV Require Ble.GoSem Gen.BleImpl Ble.Handler Ble.Aes.
Import ListNotations.
Local Open Scope Z_scope.

Theorem C19_src_PKCS7Padding : forall data (bs : nat) s, (1 <= bs <= 255)%nat ->
  go_PKCS7Padding data (Z.of_nat bs) s = (DVal (GV.Ble.Handler.pkcs7 data bs), s).
Proof. exact go_PKCS7Padding_spec. Qed.
Print Assumptions C19_src_PKCS7Padding.

(* the handler of the translated source, for every payload, key and configuration: what it logs -- too short,
   bad key, the plaintext, the decoded solar-charger record or its decoding error -- is what the model computes
   (Ble/Handler.v: AES-CTR under the device key with the nonce of bytes 5..6 over the padded bytes 8.., type 0x01
   decoded by the translated decoder of Gen/BleImpl.v) *)
Theorem C19_src_handle : forall c dc raw,
  handler_rel (go_handleNewManufacturerData c dc raw [])
              (GV.Ble.Handler.handle (GV.Ble.Aes.aes_encrypt (dc_key dc)) (List.length (dc_key dc)) raw).
Proof. exact go_handle_refines. Qed.
Print Assumptions C19_src_handle.

(* the property on the translated source: advertisement handling never panics *)
Theorem C19_src_handle_no_panic : forall c dc raw, fst (go_handleNewManufacturerData c dc raw []) = DVal tt.
Proof. exact go_handle_no_panic. Qed.
Print Assumptions C19_src_handle_no_panic.

Theorem C19_src_bluezAddrBytes : forall addr s,
  exists s', go_bluezAddrBytes addr s = (DVal (GV.Ble.Handler.bluez_addr_bytes addr), s').
Proof. exact go_bluezAddrBytes_value. Qed.
Print Assumptions C19_src_bluezAddrBytes.

(* a device is matched to the first configuration whose MAC equals the address bytes *)
Theorem C19_src_getDeviceConfig : forall devs dbg addr s,
  exists s', go_getDeviceConfig (mkBle dbg devs) addr s =
             (DVal (match GV.Ble.Handler.get_device_config (map dc_mac devs) addr with
                    | Some i => nth_error devs i
                    | None => None
                    end), s').
Proof. exact go_getDeviceConfig_spec. Qed.
Print Assumptions C19_src_getDeviceConfig.

