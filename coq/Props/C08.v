(* C08 — BLE record decoders are total and length-safe. *)
From GV Require Import Ble.GoSem Ble.Layout Ble.LayoutFacts Gen.BleImpl Ble.RefineTac Ble.RefineAll.
Open Scope Z_scope.

(* for each of the thirteen decoders and inputs of ANY length: never a fault (index, slice
   and fixed-width reads are judged against len, not cap), ErrInputTooShort exactly when the
   input is shorter than the documented record length, and for longer inputs the result is
   the specification's result on the record alone *)
Theorem C08_all_decoders :
  length_safe fields_AcChargerRecord DecodeAcChargerRecord layout_AcCharger /\
  length_safe fields_BatteryMonitorRecord DecodeBatteryMonitorRecord layout_BatteryMonitor /\
  length_safe fields_DcDcConverterRecord DecodeDcDcConverterRecord layout_DcDcConverter /\
  length_safe fields_DcEnergyMeterRecord DecodeDcEnergyMeterRecord layout_DcEnergyMeter /\
  length_safe fields_GxDeviceRecord DecodeGxDeviceRecord layout_GxDevice /\
  length_safe fields_InverterRecord DecodeInverterRecord layout_Inverter /\
  length_safe fields_InverterRsRecord DecodeInverterRsRecord layout_InverterRs /\
  length_safe fields_LynxSmartBms DecodeLynxSmartBms layout_LynxSmartBms /\
  length_safe fields_MultiRsRecord DecodeMultiRsRecord layout_MultiRs /\
  length_safe fields_SmartBatteryProtectRecord DecodeSmartBatteryProtectRecord layout_SmartBatteryProtect /\
  length_safe fields_SmartLithiumRecord DecodeSmartLithiumRecord layout_SmartLithium /\
  length_safe fields_SolarChargerRecord DecodeSolarChargeRecord layout_SolarCharger /\
  length_safe fields_VeBusRecord DecodeVeBusRecord layout_VeBus.
Proof. exact all_length_safe. Qed.
Print Assumptions C08_all_decoders.

Theorem C08_suffix_independent_spec : forall l r s,
  layout_fits l = true -> layout_len l <= g_len r -> spec_decode l (r ++ s) = spec_decode l r.
Proof. exact spec_decode_app. Qed.
Print Assumptions C08_suffix_independent_spec.

(* documented byte lengths *)
Example C08_record_lengths :
  map layout_len [layout_AcCharger; layout_BatteryMonitor; layout_DcDcConverter; layout_DcEnergyMeter; layout_GxDevice;
                  layout_Inverter; layout_InverterRs; layout_LynxSmartBms; layout_MultiRs; layout_SmartBatteryProtect;
                  layout_SmartLithium; layout_SolarCharger; layout_VeBus] = [13; 15; 10; 11; 11; 11; 12; 16; 14; 15; 16; 12; 13].
Proof. vm_compute. reflexivity. Qed.
