(* C12 — each product gets exactly the register list of its product class. *)
From GV Require Import Tables.ObsTypes Tables.Lookup Gen.Obs Tables.Product Tables.Enum Tables.RegFactory Tables.RegFactoryFacts.

(* for all 65536 ids: the observed (error, list) is the one the class of the product
   prescribes — family list minus the documented exclusions, load registers instead of
   PanelCurrent for 10/15/20 A chargers, ErrUnsupportedType and an empty list for every
   other product — and the list is well formed: names and addresses unique, number factors
   non-zero, every enum / field-list register carries a known decoder *)
Theorem C12_by_class : forall id, 0 <= id < 65536 -> c12_ok id = true.
Proof. exact c12_all_products. Qed.
Print Assumptions C12_by_class.

Theorem C12_classes_inhabited :
  class_of (obs_product 515) = ClsBMV /\ class_of (obs_product 41865) = ClsSmartBMV /\
  class_of (obs_product 41046) = ClsMPPT /\ class_of (obs_product 41043) = ClsMPPTLoad /\
  class_of (obs_product 41521) = ClsPhoenix /\ class_of (obs_product 41218) = ClsUnsupported /\
  class_of (obs_product 41792) = ClsUnsupported.
Proof. exact classes_inhabited. Qed.
Print Assumptions C12_classes_inhabited.
