(* C06 — no device behaviour or port failure can crash the driver; bounded writes. *)
From GV Require Import Base.Bytes Base.Hex Base.LE Vedirect.Frame Vedirect.FrameFacts
     Vedirect.Port Vedirect.Driver Vedirect.DriverFacts Vedirect.DriverSpec Vedirect.ReadsFacts.
From GV Require Import Tables.ObsTypes Gen.Obs Api.Api Api.ApiReads.

(* for every logger configuration, every driver state (any buffered bytes, any device
   script, any write/read/flush fault schedule), every call kind and address: no panic *)
Theorem C06_no_panic : forall c idle k s, fst (do_call c idle k s) <> Panic.
Proof. exact do_call_no_panic. Qed.
Print Assumptions C06_no_panic.

(* ... and every call returns: the modelled loops (bufio's ReadBytes, the async-skipping loop,
   the eight tries) terminate within the supplied fuel for every script, including ports that
   deliver empty reads forever *)
Theorem C06_total : forall c idle k s,
  fst (do_call c idle k s) <> OutOfFuel /\ fst (do_call c idle k s) <> Panic.
Proof. exact do_call_total. Qed.
Print Assumptions C06_total.

Theorem C06_response_parser_total :
  forall cmd rd, parse_response cmd rd <> Panic /\ parse_response cmd rd <> OutOfFuel.
Proof. exact parse_response_no_panic. Qed.
Print Assumptions C06_response_parser_total.

(* at most eight Write calls per register access *)
Theorem C06_at_most_8_writes :
  forall c idle addr s, (nwrites (pt (snd (ve_command_get c idle addr s))) <= nwrites (pt s) + 8)%nat.
Proof. exact ve_command_get_at_most_8_writes. Qed.
Print Assumptions C06_at_most_8_writes.

(* exactly one Write call per exchange (Ping, device id, each attempt of a register access) *)
Theorem C06_one_write_per_exchange :
  forall c idle cmd data s,
    let s' := snd (send_receive c idle cmd data s) in
    nwrites (pt s') = S (nwrites (pt s)) /\
    (written (pt s') = written (pt s) \/ written (pt s') = written (pt s) ++ [tx_frame_data cmd data]).
Proof. exact send_receive_one_write. Qed.
Print Assumptions C06_one_write_per_exchange.

(* only a bounded number of reads once the port reports no more data: every driver call, for
   every state, device script and fault schedule, adds at most 8 Read calls answered from the
   exhausted port when it reports end of data (EOF / timeout), and at most 8 * 100 when it
   never reports it and answers (0, nil) (bufio gives up after 100 empty reads per fill) *)
Theorem C06_reads_at_end : forall c idle k s,
  (reads_at_end (pt (snd (do_call c idle k s))) <=
   reads_at_end (pt s) + 8 * (if noprog (pt s) then max_empty_reads else 1))%nat.
Proof. exact do_call_reads_at_end. Qed.
Print Assumptions C06_reads_at_end.

(* the same for one register read of the register API (Read*Register, any register) *)
Theorem C06_api_reads_at_end : forall c idle r s, bounded 8 s (snd (read_register c idle r s)).
Proof. exact read_register_reads. Qed.
Print Assumptions C06_api_reads_at_end.
