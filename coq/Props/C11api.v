(* C11api -- the property's anchored source (vedirectapi/registerApi.go) translated on every run into
   Gen/ApiImpl.v and proved equal in behaviour to the hand-written model Api/Api.v (tie T-gen).  Only
   statements, `exact` and Print Assumptions. *)
From Coq Require Import QArith.
From GV Require Import Vedirect.DrvSem Gen.DrvImpl Vedirect.DrvRefine Api.ApiSem Gen.ApiImpl Api.ApiRefine
     Api.ApiRefineTables Api.ApiProps Api.ApiValueFacts Api.ApiMapsRefine.
Import ListNotations.
Local Open Scope Z_scope.

(* NewRegisterApi of the translated source against the model's connect: ping, then the device id, an
   object iff both succeed and the id is a known product with a register list -- then product = id and
   registers = the list of that id; a fresh driver has never sent (clock flag true) *)
Theorem C11_api_NewRegisterApi : forall c v hist cn,
  connect_rel (go_NewRegisterApi tt c (mkA (mkD v true) hist cn)) (connect c v) hist cn.
Proof. exact go_NewRegisterApi_refines. Qed.
Print Assumptions C11_api_NewRegisterApi.

