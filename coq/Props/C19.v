(* C19 — BLE advertisement handling decrypts and dispatches correctly and never crashes. *)
From GV Require Import Ble.GoSem Gen.BleImpl Ble.Layout Ble.RefineTac Ble.Handler Ble.HandlerFacts Ble.Aes Ble.AesFacts Ble.AesHandler.
Open Scope Z_scope.

(* padding: for every data length and every block size 1..255, between 1 and blocksize bytes
   are appended, each equal to the pad length, and the total is a multiple of the block size *)
Theorem C19_pad : forall data bs, (1 <= bs <= 255)%nat ->
  exists n, (1 <= n <= bs)%nat /\
    pkcs7 data bs = data ++ repeat (zb (Z.of_nat n)) n /\
    bz (zb (Z.of_nat n)) = Z.of_nat n /\
    (List.length (pkcs7 data bs) mod bs = 0)%nat.
Proof. exact pkcs7_spec. Qed.
Print Assumptions C19_pad.

(* payloads too short to hold the 8-byte header and data are ignored, for every key *)
Theorem C19_short_ignored : forall E keylen raw, (List.length raw < 9)%nat -> handle E keylen raw = HIgnored.
Proof. exact handle_short. Qed.
Print Assumptions C19_short_ignored.

Theorem C19_bad_key : forall E keylen raw,
  (9 <= List.length raw)%nat -> key_len_ok keylen = false -> handle E keylen raw = HBadKey.
Proof. exact handle_bad_key. Qed.
Print Assumptions C19_bad_key.

(* for every block function (AES under the device key), every header and every data: the
   plaintext is the CTR decryption of bytes 8.. (padded) with the little-endian 16-bit nonce
   of bytes 5..6 as initial counter block, and a type 0x01 record is decoded by the
   solar-charger decoder on that plaintext; other types are not decoded *)
Theorem C19_dispatch : forall E keylen b0 b1 b2 b3 rtype nlo nhi b7 enc,
  key_len_ok keylen = true -> (1 <= List.length enc)%nat ->
  let plain := ctr_decrypt E nlo nhi (pkcs7 enc 16) in
  handle E keylen (b0 :: b1 :: b2 :: b3 :: rtype :: nlo :: nhi :: b7 :: enc) =
  if bz rtype =? 1 then HSolar plain (DecodeSolarChargeRecord plain) else HPlain plain.
Proof. exact handle_dispatch. Qed.
Print Assumptions C19_dispatch.

(* the padding does not disturb the record: the first |data| plaintext bytes are the CTR
   decryption of the data alone *)
Theorem C19_ctr_prefix : forall E, (forall c, List.length (E c) = 16%nat) -> forall lo hi data extra,
  firstn (List.length data) (ctr_decrypt E lo hi (data ++ extra)) = ctr_decrypt E lo hi data.
Proof. exact ctr_decrypt_prefix. Qed.
Print Assumptions C19_ctr_prefix.

(* the decoding of the plaintext never faults and is the layout's (C07/C08) *)
Theorem C19_total : forall plain,
  good fields_SolarChargerRecord (DecodeSolarChargeRecord plain) (spec_decode layout_SolarCharger plain).
Proof. exact handle_solar_decodes. Qed.
Print Assumptions C19_total.

(* a device is matched to the first configuration whose MAC equals the decoded address,
   and the colon-separated hex rendering of a MAC decodes to that MAC *)
Theorem C19_mac_lookup : forall macs a i,
  match first_match macs a i with
  | Some k => exists j, k = (i + j)%nat /\ nth_error macs j = Some a /\ forall j', (j' < j)%nat -> nth_error macs j' <> Some a
  | None => forall j, nth_error macs j <> Some a
  end.
Proof. exact first_match_spec. Qed.
Print Assumptions C19_mac_lookup.

Theorem C19_mac_address : forall mac, mac <> [] -> bluez_addr_bytes (render_mac mac) = mac.
Proof. exact bluez_addr_of_render. Qed.
Print Assumptions C19_mac_address.

(* AES itself.  aes_encrypt (Ble/Aes.v) is FIPS-197's Cipher for 128/192/256-bit keys; it
   reproduces the standard's example vectors (Appendix B and C.1-C.3) ... *)
Theorem C19_aes_fips197 :
  aes_encrypt_z (map Z.of_nat (seq 0 16)) fips_plain =
    [0x69;0xc4;0xe0;0xd8;0x6a;0x7b;0x04;0x30;0xd8;0xcd;0xb7;0x80;0x70;0xb4;0xc5;0x5a] /\
  aes_encrypt_z (map Z.of_nat (seq 0 24)) fips_plain =
    [0xdd;0xa9;0x7c;0xa4;0x86;0x4c;0xdf;0xe0;0x6e;0xaf;0x70;0xa0;0xec;0x0d;0x71;0x91] /\
  aes_encrypt_z (map Z.of_nat (seq 0 32)) fips_plain =
    [0x8e;0xa2;0xb7;0xca;0x51;0x67;0x45;0xbf;0xea;0xfc;0x49;0x90;0x4b;0x49;0x60;0x89] /\
  aes_encrypt_z
    [0x2b;0x7e;0x15;0x16;0x28;0xae;0xd2;0xa6;0xab;0xf7;0x15;0x88;0x09;0xcf;0x4f;0x3c]
    [0x32;0x43;0xf6;0xa8;0x88;0x5a;0x30;0x8d;0x31;0x31;0x98;0xa2;0xe0;0x37;0x07;0x34] =
    [0x39;0x25;0x84;0x1d;0x02;0xdc;0x09;0xfb;0xdc;0x11;0x85;0x97;0x19;0x6a;0x0b;0x32].
Proof. exact (conj fips197_c1 (conj fips197_c2 (conj fips197_c3 fips197_b))). Qed.
Print Assumptions C19_aes_fips197.

(* ... and, under the device's key (16, 24 or 32 bytes), the handler's plaintext is the
   AES-CTR decryption: the record's first |enc| plaintext bytes are enc xor the AES key stream
   of the counter blocks starting at the little-endian nonce, whatever the padding adds *)
Theorem C19_aes_ctr : forall key b0 b1 b2 b3 rtype nlo nhi b7 enc,
  In (List.length key) [16; 24; 32]%nat -> (1 <= List.length enc)%nat ->
  let plain := ctr_decrypt (aes_encrypt key) nlo nhi (pkcs7 enc 16) in
  handle (aes_encrypt key) (List.length key) (b0 :: b1 :: b2 :: b3 :: rtype :: nlo :: nhi :: b7 :: enc) =
    (if bz rtype =? 1 then HSolar plain (DecodeSolarChargeRecord plain) else HPlain plain) /\
  firstn (List.length enc) plain = ctr_decrypt (aes_encrypt key) nlo nhi enc.
Proof. exact handle_aes_ctr. Qed.
Print Assumptions C19_aes_ctr.
