(* C19 — BLE advertisement handling decrypts and dispatches correctly and never crashes. *)
From GV Require Import Ble.GoSem Gen.BleImpl Ble.Layout Ble.RefineTac Ble.Handler Ble.HandlerFacts.
Open Scope Z_scope.

(* padding: for every data length and every block size 1..255, between 1 and blocksize bytes
   are appended, each equal to the pad length, and the total is a multiple of the block size *)
Theorem C19_pad : forall data bs, (1 <= bs <= 255)%nat ->
  exists n, (1 <= n <= bs)%nat /\
    pkcs7 data bs = data ++ repeat (zb (Z.of_nat n)) n /\
    bz (zb (Z.of_nat n)) = Z.of_nat n /\
    (List.length (pkcs7 data bs) mod bs = 0)%nat.
Proof. exact pkcs7_spec. Qed.
Print Assumptions C19_pad.

(* payloads too short to hold the 8-byte header and data are ignored, for every key *)
Theorem C19_short_ignored : forall E keylen raw, (List.length raw < 9)%nat -> handle E keylen raw = HIgnored.
Proof. exact handle_short. Qed.
Print Assumptions C19_short_ignored.

Theorem C19_bad_key : forall E keylen raw,
  (9 <= List.length raw)%nat -> key_len_ok keylen = false -> handle E keylen raw = HBadKey.
Proof. exact handle_bad_key. Qed.
Print Assumptions C19_bad_key.

(* for every block function (AES under the device key), every header and every data: the
   plaintext is the CTR decryption of bytes 8.. (padded) with the little-endian 16-bit nonce
   of bytes 5..6 as initial counter block, and a type 0x01 record is decoded by the
   solar-charger decoder on that plaintext; other types are not decoded *)
Theorem C19_dispatch : forall E keylen b0 b1 b2 b3 rtype nlo nhi b7 enc,
  key_len_ok keylen = true -> (1 <= List.length enc)%nat ->
  let plain := ctr_decrypt E nlo nhi (pkcs7 enc 16) in
  handle E keylen (b0 :: b1 :: b2 :: b3 :: rtype :: nlo :: nhi :: b7 :: enc) =
  if bz rtype =? 1 then HSolar plain (DecodeSolarChargeRecord plain) else HPlain plain.
Proof. exact handle_dispatch. Qed.
Print Assumptions C19_dispatch.

(* the padding does not disturb the record: the first |data| plaintext bytes are the CTR
   decryption of the data alone *)
Theorem C19_ctr_prefix : forall E, (forall c, List.length (E c) = 16%nat) -> forall lo hi data extra,
  firstn (List.length data) (ctr_decrypt E lo hi (data ++ extra)) = ctr_decrypt E lo hi data.
Proof. exact ctr_decrypt_prefix. Qed.
Print Assumptions C19_ctr_prefix.

(* the decoding of the plaintext never faults and is the layout's (C07/C08) *)
Theorem C19_total : forall plain,
  good fields_SolarChargerRecord (DecodeSolarChargeRecord plain) (spec_decode layout_SolarCharger plain).
Proof. exact handle_solar_decodes. Qed.
Print Assumptions C19_total.

(* a device is matched to the first configuration whose MAC equals the decoded address,
   and the colon-separated hex rendering of a MAC decodes to that MAC *)
Theorem C19_mac_lookup : forall macs a i,
  match first_match macs a i with
  | Some k => exists j, k = (i + j)%nat /\ nth_error macs j = Some a /\ forall j', (j' < j)%nat -> nth_error macs j' <> Some a
  | None => forall j, nth_error macs j <> Some a
  end.
Proof. exact first_match_spec. Qed.
Print Assumptions C19_mac_lookup.

Theorem C19_mac_address : forall mac, mac <> [] -> bluez_addr_bytes (render_mac mac) = mac.
Proof. exact bluez_addr_of_render. Qed.
Print Assumptions C19_mac_address.
