(* C16reg -- the property's anchored source (veregister/registerList.go, filter.go) translated on every run into
   Gen/RegImpl.v and proved equal to the four-sequence model Tables/RegList.v (tie T-gen).  Only statements,
   `exact` and Print Assumptions. *)
From Coq Require Import Strings.Byte.
From GV Require Import Vedirect.DrvSem Tables.RegSem Gen.RegImpl Tables.RegListFacts Tables.RegRefine.
Import ListNotations.
Local Open Scope Z_scope.

Theorem C16_reg_Len : forall rl, go_Len rl = (DVal (Z.of_nat (rl_len rl)), rl).
Proof. exact go_Len_spec. Qed.
Print Assumptions C16_reg_Len.

Theorem C16_reg_AppendNumber : forall rs rl, go_AppendNumberRegisterStruct rs rl = (DVal tt, rl_step rl (OAppendNumbers rs)).
Proof. exact go_AppendNumber_spec. Qed.
Print Assumptions C16_reg_AppendNumber.

Theorem C16_reg_AppendText : forall rs rl, go_AppendTextRegisterStruct rs rl = (DVal tt, rl_step rl (OAppendTexts rs)).
Proof. exact go_AppendText_spec. Qed.
Print Assumptions C16_reg_AppendText.

Theorem C16_reg_AppendEnum : forall rs rl, go_AppendEnumRegisterStruct rs rl = (DVal tt, rl_step rl (OAppendEnums rs)).
Proof. exact go_AppendEnum_spec. Qed.
Print Assumptions C16_reg_AppendEnum.

Theorem C16_reg_AppendFieldList : forall rs rl, go_AppendFieldListRegisterStruct rs rl = (DVal tt, rl_step rl (OAppendFieldLists rs)).
Proof. exact go_AppendFieldList_spec. Qed.
Print Assumptions C16_reg_AppendFieldList.

(* the generic filter keeps exactly the elements satisfying the predicate, in their order *)
Theorem C16_reg_filterRegisters : forall inp f p s, pure_pred f p ->
  go_filterRegisters inp f s = (DVal (filter p inp), s).
Proof. exact go_filterRegisters_spec. Qed.
Print Assumptions C16_reg_filterRegisters.

Theorem C16_reg_FilterRegister : forall f p rl, pure_pred f p ->
  go_FilterRegister f rl = (DVal tt, rl_filter p rl).
Proof. exact go_FilterRegister_spec. Qed.
Print Assumptions C16_reg_FilterRegister.

(* name filters drop exactly the named registers, of every kind *)
Theorem C16_reg_FilterByName : forall names rl,
  go_FilterByName (map list_byte_of_string names) rl = (DVal tt, rl_step rl (OFilterByName names)).
Proof. exact go_FilterByName_spec. Qed.
Print Assumptions C16_reg_FilterByName.

Theorem C16_reg_GetRegisters : forall rl, go_GetRegisters rl = (DVal (rl_get_registers rl), rl).
Proof. exact go_GetRegisters_spec. Qed.
Print Assumptions C16_reg_GetRegisters.

(* the property on the translated source: after ANY history of append and filter operations the list is the
   model's list (C16_history: four plain sequences), its length the total count, the combined view the
   stable sort -- and GetRegisters/Len leave the list as it is *)
Theorem C16_reg_history : forall ops rl, go_ops ops rl = (DVal tt, fold_left rl_step ops rl).
Proof. exact go_history. Qed.
Print Assumptions C16_reg_history.

Theorem C16_reg_history_view : forall ops,
  let rl := fold_left rl_step ops rl_empty in
  bind (go_ops ops) (fun _ => bind go_Len (fun n => bind go_GetRegisters (fun l => ret (n, l)))) rl_empty
  = (DVal (Z.of_nat (rl_len rl), rl_get_registers rl), rl).
Proof. exact go_history_view. Qed.
Print Assumptions C16_reg_history_view.

