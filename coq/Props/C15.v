(* C15 — field lists expose exactly the documented bits and render deterministically. *)
From GV Require Import Tables.ObsTypes Tables.Lookup Gen.ObsEnum Tables.Enum Tables.EnumFacts.

Theorem C15_fields : forall (m : list (Z * string)) raw,
  map fst (fl_fields m raw) = map fst m /\
  forall i b, In (i, b) (fl_fields m raw) -> b = Z.testbit raw i.
Proof. exact fl_fields_spec. Qed.
Print Assumptions C15_fields.

(* for every field-list type and EVERY raw value the rendering is the ", "-join of some
   ordering of exactly the set fields' names, each once; being a function of the value it is
   identical every time *)
Theorem C15_render : forall f, In f obs_fieldlists -> forall raw : Z,
  render_ok (f_map f) (map (fun kn => Z.testbit raw (fst kn)) (f_map f)) (fl_render (f_map f) raw) = true.
Proof. exact fl_render_spec. Qed.
Print Assumptions C15_render.

Theorem C15_tables :
  forallb (fun f => keys_increasing (-1) (f_map f) &&
                    forallb (fun kn => (0 <=? fst kn) && (fst kn <? f_bits f) && nonempty_s (snd kn)) (f_map f))
          obs_fieldlists = true.
Proof. exact fl_tables_ok. Qed.
Print Assumptions C15_tables.
