(* C10 — register streaming: ordered, exactly-once, abort on error, stop on cancellation. *)
From GV Require Import Base.Bytes Vedirect.Frame Vedirect.Port Vedirect.Driver.
From GV Require Import Tables.ObsTypes Gen.Obs Api.Api Api.ApiFacts Api.Maps Api.MapsFacts Tables.RegFactory Api.MapsTables.

(* For every register sequence, cancellation point, accumulator and driver state (any
   device script, any fault schedule): the values delivered are, in order and each once, a
   prefix of the sequence; no register is read at or after a check point at which the
   context is done; the run ends normally iff the whole sequence was delivered; on
   cancellation at least one register remained; on a failure the error is the one of the
   first failing register and the state is the one that read left behind (nothing later
   is read). *)
Theorem C10_stream :
  forall c regs ca acc s,
  let '(e, delivered, s') := stream_group c regs ca acc s in
  exists k, (k <= List.length regs)%nat /\
    map fst delivered = map fst acc ++ firstn k regs /\
    firstn (List.length acc) delivered = acc /\
    (forall j, (j < k)%nat -> cancelled ca (List.length acc + j) = false) /\
    match e with
    | SDone => k = List.length regs
    | SCancelled => (k < List.length regs)%nat /\ cancelled ca (List.length acc + k) = true
    | SError err => (k < List.length regs)%nat /\ cancelled ca (List.length acc + k) = false /\
                    exists s0, read_register c false (nth k regs (mkReg 0 "" "" "" 0 0 false false false 0 0 0 "" "")) s0 = (Err err, s')
    | SPanic | SFuel => (k < List.length regs)%nat
    end.
Proof. exact stream_group_spec. Qed.
Print Assumptions C10_stream.

(* grouped numbers, texts, enums, field lists; only groups whose handler is set *)
Theorem C10_plan : forall h rl,
  stream_plan h rl =
  (if h_num h then l_numbers rl else []) ++ (if h_text h then l_texts rl else []) ++
  (if h_enum h then l_enums rl else []) ++ (if h_fl h then l_fieldlists rl else []).
Proof. reflexivity. Qed.
Print Assumptions C10_plan.

Theorem C10_no_handler_no_io : forall c rl ca s,
  stream_register_list c (mkHandlers false false false false) rl ca s = (SDone, [], s).
Proof. exact stream_no_handlers. Qed.
Print Assumptions C10_no_handler_no_io.

(* reading a register writes only Get frames for that register's address *)
Theorem C10_io_only_for_read_registers : forall c idle r s,
  exists k, written (pt (snd (read_register c idle r s))) = written (pt s) ++ repeat (tx_frame 7 (r_addr r mod 65536)) k.
Proof. exact read_register_written. Qed.
Print Assumptions C10_io_only_for_read_registers.

(* The map-returning variants (ReadRegisterList / ReadAllRegisters): same end and same
   driver state as the streaming run with all four handlers; in each of the four maps a
   name is a key iff a value of that kind was delivered under it before the run ended, the
   value under it is the last one so delivered, and with pairwise distinct names (every list
   of the product table) the map is exactly the delivered sequence of that kind. *)
Theorem C10_maps :
  forall c rl ca s,
  let '(e, m, s') := read_register_list c rl ca s in
  let '(e2, d, s2) := stream_register_list c all_handlers rl ca s in
  e = e2 /\ s' = s2 /\
  (forall k n, m_get n (rv_map k m) = option_map snd (find (named n) (rev (deliv_kind k d)))) /\
  (forall k n, m_get n (rv_map k m) <> None <-> exists x, In x d /\ of_kind k x = true /\ r_name (fst x) = n) /\
  (forall k, NoDup (map (fun x => r_name (fst x)) (deliv_kind k d)) -> rv_map k m = map entry (deliv_kind k d)).
Proof. exact read_register_list_spec. Qed.
Print Assumptions C10_maps.

(* ... and every product's register list (all 65536 ids) has pairwise distinct names (C12), so
   for ReadAllRegisters on any connected product each map is exactly the delivered prefix of
   that kind: same names, same values, nothing else *)
Theorem C10_maps_of_product_lists : forall id c ca s,
  let rl := snd (obs_reglist id) in
  let '(e, m, s') := read_register_list c rl ca s in
  let '(e2, d, s2) := stream_register_list c all_handlers rl ca s in
  (0 <= id < 65536)%Z -> forall k, rv_map k m = map entry (deliv_kind k d).
Proof. exact maps_of_product_lists. Qed.
Print Assumptions C10_maps_of_product_lists.
