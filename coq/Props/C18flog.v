(* C18flog -- vedirectapi/fileLogger.go translated on every run into Gen/FlogImpl.v (tie T-gen): the last clause of
   the property.  Only statements, `exact` and Print Assumptions. *)
From GV Require Import Vedirect.DrvSem Api.FlogSem Gen.FlogImpl Api.FlogFacts.
Import ListNotations.
Local Open Scope Z_scope.

(* the file logger, once closed, has appended every line in order -- each followed by one line feed -- after the
   file's previous content, whatever that content, the path and the lines are (no I/O faults) *)
Theorem C18_flog_appends : forall path prev lines so,
  session path lines (mkF prev [] false false false so)
  = (DVal None, mkF (prev ++ rendered lines) [] false false false so).
Proof. exact file_logger_appends. Qed.
Print Assumptions C18_flog_appends.

Theorem C18_flog_open_error : forall path prev so,
  go_NewFileLogger path (mkF prev [] false true false so) = (DVal (None, Some EOther), mkF prev [] false true false so).
Proof. exact file_logger_open_error. Qed.
Print Assumptions C18_flog_open_error.
