(* C09api -- the property's anchored source (vedirectapi/registerApi.go) translated on every run into
   Gen/ApiImpl.v and proved equal in behaviour to the hand-written model Api/Api.v (tie T-gen).  Only
   statements, `exact` and Print Assumptions. *)
From Coq Require Import QArith.
From GV Require Import Vedirect.DrvSem Gen.DrvImpl Vedirect.DrvRefine Api.ApiSem Gen.ApiImpl Api.ApiRefine
     Api.ApiRefineTables Api.ApiProps Api.ApiValueFacts Api.ApiMapsRefine.
Import ListNotations.
Local Open Scope Z_scope.

Theorem C09_api_ReadNumberRegister : forall c r v idle hist cn, r_kind r = 1 -> addr_ok r ->
  read_rel (fun q rv => exists n, rv = RVNum q n) (go_ReadNumberRegister c r (mkA (mkD v idle) hist cn))
           (read_register c idle r v) hist cn.
Proof. exact go_ReadNumberRegister_refines. Qed.
Print Assumptions C09_api_ReadNumberRegister.

Theorem C09_api_ReadTextRegister : forall c r v idle hist cn, r_kind r = 2 -> addr_ok r ->
  read_rel (fun t rv => rv = RVText t) (go_ReadTextRegister c r (mkA (mkD v idle) hist cn))
           (read_register c idle r v) hist cn.
Proof. exact go_ReadTextRegister_refines. Qed.
Print Assumptions C09_api_ReadTextRegister.

Theorem C09_api_ReadEnumRegister : forall c r v idle hist cn, r_kind r = 3 -> addr_ok r ->
  read_rel (fun e rv => rv = RVEnum (fst e) (snd e)) (go_ReadEnumRegister c r (mkA (mkD v idle) hist cn))
           (read_register c idle r v) hist cn.
Proof. exact go_ReadEnumRegister_refines. Qed.
Print Assumptions C09_api_ReadEnumRegister.

Theorem C09_api_ReadFieldListRegister : forall c r v idle hist cn, r_kind r = 4 -> addr_ok r ->
  read_rel (fun fs rv => rv = RVFields fs) (go_ReadFieldListRegister c r (mkA (mkD v idle) hist cn))
           (read_register c idle r v) hist cn.
Proof. exact go_ReadFieldListRegister_refines. Qed.
Print Assumptions C09_api_ReadFieldListRegister.

(* the property on the translated source: the field set is the bit set of the unsigned value the
   driver read, cut to the width of the type *)
Theorem C09_api_fieldlist_bits : forall c r v idle hist cn fs sa, r_kind r = 4 -> addr_ok r ->
  go_ReadFieldListRegister c r (mkA (mkD v idle) hist cn) = (DVal (fs, None), sa) ->
  exists n v1 f, get_uint c idle (r_addr r) v = (Ok (VNum n), v1) /\ fl_of (r_factory r) = Some f /\
                 fs = fl_fields (f_map f) (n mod 2 ^ f_bits f).
Proof. exact src_fieldlist_bits. Qed.
Print Assumptions C09_api_fieldlist_bits.

