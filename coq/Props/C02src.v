(* C02src -- the property's anchored source (package vedirect) translated on every run into
   Gen/DrvImpl.v and proved equal in behaviour to the hand-written model (tie T-gen).  Only statements,
   `exact` and Print Assumptions. *)
From GV Require Import Vedirect.DrvSem Gen.DrvImpl Base.HexFacts Vedirect.FrameFacts Vedirect.PortFacts
     Vedirect.DriverFacts Vedirect.DriverSpec Vedirect.DrvRefine Vedirect.DrvProps.
Import ListNotations.
Local Open Scope Z_scope.

Theorem C02_src_littleEndianBytesToUint : forall bs s,
  go_littleEndianBytesToUint bs s = (DVal (le_uint bs), s).
Proof. exact go_littleEndianBytesToUint_spec. Qed.
Print Assumptions C02_src_littleEndianBytesToUint.

Theorem C02_src_littleEndianBytesToInt : forall bs s,
  go_littleEndianBytesToInt bs s = (DVal (int_result bs), s).
Proof. exact go_littleEndianBytesToInt_spec. Qed.
Print Assumptions C02_src_littleEndianBytesToInt.

Theorem C02_src_GetUint : forall c addr v idle, 0 <= addr < 65536 ->
  call_rel VNum (go_GetUint c addr (mkD v idle)) (get_uint c idle addr v).
Proof. exact go_GetUint_refines. Qed.
Print Assumptions C02_src_GetUint.

Theorem C02_src_GetInt : forall c addr v idle, 0 <= addr < 65536 ->
  call_rel VNum (go_GetInt c addr (mkD v idle)) (get_int c idle addr v).
Proof. exact go_GetInt_refines. Qed.
Print Assumptions C02_src_GetInt.

Theorem C02_src_GetString : forall c addr v idle, 0 <= addr < 65536 ->
  call_rel VBytes (go_GetString c addr (mkD v idle)) (get_string c idle addr v).
Proof. exact go_GetString_refines. Qed.
Print Assumptions C02_src_GetString.

Theorem C02_src_GetDeviceId : forall c v idle,
  call_rel VNum (go_GetDeviceId c (mkD v idle)) (get_device_id c idle v).
Proof. exact go_GetDeviceId_refines. Qed.
Print Assumptions C02_src_GetDeviceId.

