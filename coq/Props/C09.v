(* C09 — register values are scaled and decoded exactly as the register defines. *)
From Coq Require Import QArith.
From GV Require Import Base.Bytes Base.LE Vedirect.Frame Vedirect.Port Vedirect.Driver.
From GV Require Import Tables.ObsTypes Tables.Lookup Gen.Obs Tables.Product Tables.Enum Tables.EnumFacts
     Tables.RegFactory Tables.RegFactoryFacts Api.Api Api.ApiFacts.
Open Scope Z_scope.

(* For every register, driver state, script and fault schedule: the reader yields
   decode_register of the raw payload the driver obtained — number: raw (signed or unsigned as
   the register declares, width error for the signed reader) / factor + offset; text:
   NUL padding stripped, then Unicode TrimSpace; enum: the constant whose index is the raw
   value, ErrInvalidEnumIdx otherwise; field list: the bit set of the raw value — and a
   transport or device error is returned wrapped with the register's name. *)
Theorem C09_readers :
  forall c idle r s,
    fst (read_register c idle r s) =
    match fst (ve_command_get c idle (r_addr r) s) with
    | Ok raw => decode_register r raw
    | Err e => Err (wrap r e)
    | Panic => Panic
    | OutOfFuel => OutOfFuel
    end.
Proof. exact read_register_spec. Qed.
Print Assumptions C09_readers.

Theorem C09_number :
  forall r n, (number_value r n == inject_Z n / inject_Z (r_factor r) + (r_off_num r # Z.to_pos (r_off_den r)))%Q.
Proof. exact number_value_exact. Qed.
Print Assumptions C09_number.

(* an undefined enum code is an error, a defined one yields the constant with that index
   (C14's theorem for every integer, applied to int(uint64 raw)) *)
Theorem C09_enum : forall e, In e obs_enums -> forall v : Z,
  match new_enum (e_map e) v with
  | Some (i, n) => assoc v (e_map e) = Some n /\ i = v /\ n <> ""%string
  | None => assoc v (e_map e) = None
  end.
Proof. exact new_enum_spec. Qed.
Print Assumptions C09_enum.

(* the width of the field-list constructor loses no documented bit *)
Theorem C09_fieldlist : forall f n, In f obs_fieldlists ->
  fl_fields (f_map f) (n mod 2 ^ f_bits f) = fl_fields (f_map f) n.
Proof. exact fl_fields_trunc. Qed.
Print Assumptions C09_fieldlist.

Theorem C09_wrapped : forall r e, err_root (wrap r e) = err_root e.
Proof. exact wrap_matchable. Qed.
Print Assumptions C09_wrapped.

(* every register reachable through GetRegisterListByProduct, for all 65536 ids, has a
   non-zero factor, a representable offset and a known decoder (part of c12_ok) *)
Theorem C09_all_registers : forall id, 0 <= id < 65536 -> c12_ok id = true.
Proof. exact c12_all_products. Qed.
Print Assumptions C09_all_registers.
