(* C09 — register values are scaled and decoded exactly as the register defines. *)
From Coq Require Import QArith.
From GV Require Import Base.Bytes Base.LE Vedirect.Frame Vedirect.Port Vedirect.Driver.
From GV Require Import Tables.ObsTypes Tables.Lookup Gen.Obs Tables.Product Tables.Enum Tables.EnumFacts
     Tables.RegFactory Tables.RegFactoryFacts Api.Api Api.ApiFacts.
Open Scope Z_scope.

(* For every register, driver state, script and fault schedule: the reader yields
   decode_register of the raw payload the driver obtained — number: raw (signed or unsigned as
   the register declares, width error for the signed reader) / factor + offset; text:
   NUL padding stripped, then Unicode TrimSpace; enum: the constant whose index is the raw
   value, ErrInvalidEnumIdx otherwise; field list: the bit set of the raw value — and a
   transport or device error is returned wrapped with the register's name. *)
Theorem C09_readers :
  forall c idle r s,
    fst (read_register c idle r s) =
    match fst (ve_command_get c idle (r_addr r) s) with
    | Ok raw => decode_register r raw
    | Err e => Err (wrap r e)
    | Panic => Panic
    | OutOfFuel => OutOfFuel
    end.
Proof. exact read_register_spec. Qed.
Print Assumptions C09_readers.

Theorem C09_number :
  forall r n, (number_value r n == inject_Z n / inject_Z (r_factor r) + (r_off_num r # Z.to_pos (r_off_den r)))%Q.
Proof. exact number_value_exact. Qed.
Print Assumptions C09_number.

(* an undefined enum code is an error, a defined one yields the constant with that index
   (C14's theorem for every integer, applied to int(uint64 raw)) *)
Theorem C09_enum : forall e, In e obs_enums -> forall v : Z,
  match new_enum (e_map e) v with
  | Some (i, n) => assoc v (e_map e) = Some n /\ i = v /\ n <> ""%string
  | None => assoc v (e_map e) = None
  end.
Proof. exact new_enum_spec. Qed.
Print Assumptions C09_enum.

(* the width of the field-list constructor loses no documented bit *)
Theorem C09_fieldlist : forall f n, In f obs_fieldlists ->
  fl_fields (f_map f) (n mod 2 ^ f_bits f) = fl_fields (f_map f) n.
Proof. exact fl_fields_trunc. Qed.
Print Assumptions C09_fieldlist.

Theorem C09_wrapped : forall r e, err_root (wrap r e) = err_root e.
Proof. exact wrap_matchable. Qed.
Print Assumptions C09_wrapped.

(* every register reachable through GetRegisterListByProduct, for all 65536 ids, has a
   non-zero factor, a representable offset and a known decoder (part of c12_ok) *)
Theorem C09_all_registers : forall id, 0 <= id < 65536 -> c12_ok id = true.
Proof. exact c12_all_products. Qed.
Print Assumptions C09_all_registers.

(* IEEE-754.  The float64 the number reader returns — float64(raw)/float64(factor) + offset,
   every operation rounding to nearest even (Flocq binary64; Api/Float.v is what the
   correspondence check compares bit for bit with the implementation's result) — is finite
   and is the correctly rounded evaluation of raw/factor + offset: *)
From Coq Require Import Reals.
From Flocq Require Import Core IEEE754.BinarySingleNaN IEEE754.Binary IEEE754.Bits.
From GV Require Import Api.Float Api.FloatFacts Api.FloatTables.

(* for any register with a non-zero factor and any raw value a 64-bit read can deliver *)
Theorem C09_number_f64 : forall r raw,
  (Z.abs raw <= 2 ^ 64)%Z -> (1 <= Z.abs (r_factor r) <= 2 ^ 64)%Z ->
  (Z.abs (r_off_num r) <= 2 ^ 64)%Z -> (1 <= Z.abs (r_off_den r) <= 2 ^ 64)%Z ->
  is_finite 53 1024 (number_value_f64 r raw) = true /\
  B2R 53 1024 (number_value_f64 r raw) =
    RN (RN (RN (IZR raw) / RN (IZR (r_factor r))) + RN (RN (IZR (r_off_num r)) / RN (IZR (r_off_den r)))).
Proof. exact number_value_f64_correct. Qed.
Print Assumptions C09_number_f64.

(* for every number register of every product's list (all 65536 ids) and every raw value
   below 2^53 the integer conversions are exact: RN (RN (raw / factor) + offset) *)
Theorem C09_number_f64_small : forall id r raw,
  In r (l_numbers (snd (obs_reglist id))) -> (Z.abs raw < 2 ^ 53)%Z ->
  is_finite 53 1024 (number_value_f64 r raw) = true /\
  B2R 53 1024 (number_value_f64 r raw) =
    RN (RN (IZR raw / IZR (r_factor r)) + RN (IZR (r_off_num r) / IZR (r_off_den r))).
Proof. exact number_value_f64_tables. Qed.
Print Assumptions C09_number_f64_small.
