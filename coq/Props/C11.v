(* C11 — connecting identifies the product correctly for every device id. *)
From GV Require Import Base.Bytes Vedirect.Frame Vedirect.Port Vedirect.Driver.
From GV Require Import Tables.ObsTypes Tables.Lookup Gen.Obs Tables.Product Tables.Enum Tables.RegFactory Api.Api Api.ApiFacts.

(* an API object is returned iff the device answers the ping and the id query, the id is a
   known product and a register list is defined for it; the object carries that id and
   that list *)
Theorem C11_iff : forall c s id rl s',
  connect c s = (Connected id rl, s') <->
  exists v s1, ping c true s = (Ok v, s1) /\ get_device_id c false s1 = (Ok (VNum id), s') /\
               p_exists (obs_product id) = true /\ obs_reglist id = (0, rl).
Proof. exact connect_iff. Qed.
Print Assumptions C11_iff.

(* ... which, by C12 for all 65536 ids, means: a supported product class, and exactly that
   class's list *)
Theorem C11_supported : forall c s id rl s', 0 <= id < 65536 ->
  connect c s = (Connected id rl, s') ->
  class_of (obs_product id) <> ClsUnsupported /\ reglist_eqb rl (expected_list (class_of (obs_product id))) = true.
Proof. exact connect_supported. Qed.
Print Assumptions C11_supported.

(* ping, then the device id query, in that order, and nothing else *)
Theorem C11_order : forall c s,
  let w := written (pt (snd (connect c s))) in
  w = written (pt s) \/ w = written (pt s) ++ [tx_frame 1 0] \/
  w = written (pt s) ++ [tx_frame 4 0] \/ w = written (pt s) ++ [tx_frame 1 0; tx_frame 4 0].
Proof. exact connect_order. Qed.
Print Assumptions C11_order.
