(* C05src -- the property's anchored source (package vedirect) translated on every run into
   Gen/DrvImpl.v and proved equal in behaviour to the hand-written model (tie T-gen).  Only statements,
   `exact` and Print Assumptions. *)
From GV Require Import Vedirect.DrvSem Gen.DrvImpl Base.HexFacts Vedirect.FrameFacts Vedirect.PortFacts
     Vedirect.DriverFacts Vedirect.DriverSpec Vedirect.DrvRefine Vedirect.DrvProps.
Import ListNotations.
Local Open Scope Z_scope.

Theorem C05_src_responseError : forall flag s, go_responseError flag s = (DVal (response_error flag), s).
Proof. exact go_responseError_spec. Qed.
Print Assumptions C05_src_responseError.

(* the property on the translated source: an error is returned together with the zero value *)
Theorem C05_src_uint_error_zero : forall c addr s n e sd, go_GetUint c addr s = (DVal (n, Some e), sd) -> n = 0.
Proof. exact src_uint_error_zero. Qed.
Print Assumptions C05_src_uint_error_zero.

Theorem C05_src_int_error_zero : forall c addr s n e sd, go_GetInt c addr s = (DVal (n, Some e), sd) -> n = 0.
Proof. exact src_int_error_zero. Qed.
Print Assumptions C05_src_int_error_zero.

Theorem C05_src_string_error_zero : forall c addr s t e sd, go_GetString c addr s = (DVal (t, Some e), sd) -> t = [].
Proof. exact src_string_error_zero. Qed.
Print Assumptions C05_src_string_error_zero.

Theorem C05_src_device_error_class : forall flag s,
  go_responseError flag s =
  (DVal (if flag =? 0 then None else if flag =? 1 then Some EUnknownId else if flag =? 2 then Some ENotSupported
         else if flag =? 4 then Some EParameter else Some EOther), s).
Proof. exact src_device_error_class. Qed.
Print Assumptions C05_src_device_error_class.

