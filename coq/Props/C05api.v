(* C05api -- the property's anchored source (vedirectapi/registerApi.go) translated on every run into
   Gen/ApiImpl.v and proved equal in behaviour to the hand-written model Api/Api.v (tie T-gen).  Only
   statements, `exact` and Print Assumptions. *)
From Coq Require Import QArith.
From GV Require Import Vedirect.DrvSem Gen.DrvImpl Vedirect.DrvRefine Api.ApiSem Gen.ApiImpl Api.ApiRefine
     Api.ApiRefineTables Api.ApiProps Api.ApiValueFacts Api.ApiMapsRefine.
Import ListNotations.
Local Open Scope Z_scope.

(* the property on the translated source: every error of a reader is wrapped with the register's name *)
Theorem C05_api_number_error_wrapped : forall c r s q e sd,
  go_ReadNumberRegister c r s = (DVal (q, Some e), sd) -> wrapped_with r e /\ q = inject_Z 0.
Proof. exact src_number_error_wrapped. Qed.
Print Assumptions C05_api_number_error_wrapped.

Theorem C05_api_text_error_wrapped : forall c r s t e sd,
  go_ReadTextRegister c r s = (DVal (t, Some e), sd) -> wrapped_with r e /\ t = [].
Proof. exact src_text_error_wrapped. Qed.
Print Assumptions C05_api_text_error_wrapped.

Theorem C05_api_enum_error_wrapped : forall c r s v e sd,
  go_ReadEnumRegister c r s = (DVal (v, Some e), sd) -> wrapped_with r e.
Proof. exact src_enum_error_wrapped. Qed.
Print Assumptions C05_api_enum_error_wrapped.

Theorem C05_api_fieldlist_error_wrapped : forall c r s v e sd,
  go_ReadFieldListRegister c r s = (DVal (v, Some e), sd) -> wrapped_with r e.
Proof. exact src_fieldlist_error_wrapped. Qed.
Print Assumptions C05_api_fieldlist_error_wrapped.

