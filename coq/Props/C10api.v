(* C10api -- the property's anchored source (vedirectapi/registerApi.go) translated on every run into
   Gen/ApiImpl.v and proved equal in behaviour to the hand-written model Api/Api.v (tie T-gen).  Only
   statements, `exact` and Print Assumptions. *)
From Coq Require Import QArith.
From GV Require Import Vedirect.DrvSem Gen.DrvImpl Vedirect.DrvRefine Api.ApiSem Gen.ApiImpl Api.ApiRefine
     Api.ApiRefineTables Api.ApiProps Api.ApiValueFacts Api.ApiMapsRefine.
Import ListNotations.
Local Open Scope Z_scope.

(* the streaming loop of the translated source against the model's: returned error, the values
   handed to the handlers in order, the driver state *)
Theorem C10_api_StreamRegisterList : forall c rl h cn v, reglist_ok rl ->
  run_rel (go_StreamRegisterList c tt rl h (mkA (mkD v false) [] cn)) (stream_register_list c h rl cn v) cn.
Proof. exact go_StreamRegisterList_refines. Qed.
Print Assumptions C10_api_StreamRegisterList.

(* ... on the register list of every product id (the hypothesis is closed over the regenerated tables) *)
Theorem C10_api_stream_product_lists : forall c id h cn v,
  run_rel (go_StreamRegisterList c tt (snd (obs_reglist id)) h (mkA (mkD v false) [] cn))
          (stream_register_list c h (snd (obs_reglist id)) cn v) cn.
Proof. exact go_stream_product_lists. Qed.
Print Assumptions C10_api_stream_product_lists.

(* ReadRegisterList of the translated source (the map-returning variant: the four collector closures over the stream):
   the same end of the stream and driver state as the model's read_register_list, and per value kind the same map from
   register names to values -- what the handlers of StreamRegisterList would have been given, nothing else *)
Theorem C10_api_ReadRegisterList : forall c rl cn v, reglist_ok rl ->
  readlist_rel (go_ReadRegisterList c tt rl (mkA (mkD v false) [] cn)) (GV.Api.Maps.read_register_list c rl cn v).
Proof. exact go_ReadRegisterList_refines. Qed.
Print Assumptions C10_api_ReadRegisterList.

Theorem C10_api_ReadRegisterList_collects : forall c rl cn v G e s', reglist_ok rl ->
  go_ReadRegisterList c tt rl (mkA (mkD v false) [] cn) = (DVal (G, e), s') ->
  exists acc, G = fold_left g_put (map gpair acc) (mkRV [] [] [] []) /\ a_out s' = map gpair acc /\
              snd (fst (stream_register_list c all_handlers rl cn v)) = acc.
Proof. exact go_ReadRegisterList_collects. Qed.
Print Assumptions C10_api_ReadRegisterList_collects.

(* ... on the register list of every product id *)
Theorem C10_api_read_product_lists : forall c id cn v,
  readlist_rel (go_ReadRegisterList c tt (snd (obs_reglist id)) (mkA (mkD v false) [] cn))
               (GV.Api.Maps.read_register_list c (snd (obs_reglist id)) cn v).
Proof. exact go_read_product_lists. Qed.
Print Assumptions C10_api_read_product_lists.

