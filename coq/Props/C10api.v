(* C10api -- the property's anchored source (vedirectapi/registerApi.go) translated on every run into
   Gen/ApiImpl.v and proved equal in behaviour to the hand-written model Api/Api.v (tie T-gen).  Only
   statements, `exact` and Print Assumptions. *)
From Coq Require Import QArith.
From GV Require Import Vedirect.DrvSem Gen.DrvImpl Vedirect.DrvRefine Api.ApiSem Gen.ApiImpl Api.ApiRefine
     Api.ApiRefineTables Api.ApiProps.
Import ListNotations.
Local Open Scope Z_scope.

(* the streaming loop of the translated source against the model's: returned error, the values
   handed to the handlers in order, the driver state *)
Theorem C10_api_StreamRegisterList : forall c rl h cn v, reglist_ok rl ->
  run_rel (go_StreamRegisterList c tt rl h (mkA (mkD v false) [] cn)) (stream_register_list c h rl cn v) cn.
Proof. exact go_StreamRegisterList_refines. Qed.
Print Assumptions C10_api_StreamRegisterList.

(* ... on the register list of every product id (the hypothesis is closed over the regenerated tables) *)
Theorem C10_api_stream_product_lists : forall c id h cn v,
  run_rel (go_StreamRegisterList c tt (snd (obs_reglist id)) h (mkA (mkD v false) [] cn))
          (stream_register_list c h (snd (obs_reglist id)) cn v) cn.
Proof. exact go_stream_product_lists. Qed.
Print Assumptions C10_api_stream_product_lists.

