(* C01src -- the property's anchored source (package vedirect) translated on every run into
   Gen/DrvImpl.v and proved equal in behaviour to the hand-written model (tie T-gen).  Only statements,
   `exact` and Print Assumptions. *)
From GV Require Import Vedirect.DrvSem Gen.DrvImpl Base.HexFacts Vedirect.FrameFacts Vedirect.PortFacts
     Vedirect.DriverFacts Vedirect.DriverSpec Vedirect.DrvRefine Vedirect.DrvProps.
Import ListNotations.
Local Open Scope Z_scope.

Theorem C01_src_VeCommand : forall c cmd addr v idle, 0 <= cmd < 256 -> 0 <= addr < 65536 ->
  exists o, go_VeCommand c cmd addr (mkD v idle) = (o, mkD (snd (ve_command c idle cmd addr v)) false)
            /\ res_rel o (fst (ve_command c idle cmd addr v)).
Proof. exact go_VeCommand_spec. Qed.
Print Assumptions C01_src_VeCommand.

Theorem C01_src_VeCommandGet : forall c addr v idle, 0 <= addr < 65536 ->
  exists o idle', go_VeCommandGet c addr (mkD v idle) = (o, mkD (snd (ve_command_get c idle addr v)) idle')
            /\ res_rel o (fst (ve_command_get c idle addr v))
            /\ (o <> DPanic -> o <> DFuel -> idle' = false).
Proof. exact go_VeCommandGet_spec. Qed.
Print Assumptions C01_src_VeCommandGet.

Theorem C01_src_computeChecksum : forall cmd data s,
  go_computeChecksum cmd data s = (DVal (bz (compute_checksum cmd data)), s).
Proof. exact go_computeChecksum_spec. Qed.
Print Assumptions C01_src_computeChecksum.

Theorem C01_src_ResponseForCommand : forall cmd s,
  go_ResponseForCommand cmd s = (DVal (response_for_command cmd), s).
Proof. exact go_ResponseForCommand_spec. Qed.
Print Assumptions C01_src_ResponseForCommand.

(* the property on the translated source: a value is returned only if the received bytes contain a
   valid Get response for the address with flag 0 and that value *)
Theorem C01_src_get_sound : forall c idle addr s v sd, 0 <= addr < 65536 ->
  go_VeCommandGet c addr (mkD s idle) = (DVal (v, None), sd) ->
  exists d pre body post,
    delivered (pt (d_vd sd)) = delivered (pt s) ++ d /\
    rbuf (rd s) ++ d = pre ++ c_colon :: body ++ c_nl :: post /\
    valid_get_response addr v body.
Proof. exact src_get_sound. Qed.
Print Assumptions C01_src_get_sound.

Theorem C01_src_uint_sound : forall c idle addr s n sd, 0 <= addr < 65536 ->
  go_GetUint c addr (mkD s idle) = (DVal (n, None), sd) ->
  exists v d pre body post, n = le_uint v /\
    delivered (pt (d_vd sd)) = delivered (pt s) ++ d /\
    rbuf (rd s) ++ d = pre ++ c_colon :: body ++ c_nl :: post /\
    valid_get_response addr v body.
Proof. exact src_uint_sound. Qed.
Print Assumptions C01_src_uint_sound.

Theorem C01_src_device_id_sound : forall c idle s id sd,
  go_GetDeviceId c (mkD s idle) = (DVal (id, None), sd) ->
  exists d pre body post lo hi rest,
    delivered (pt (d_vd sd)) = delivered (pt s) ++ d /\
    rbuf (rd s) ++ d = pre ++ c_colon :: body ++ c_nl :: post /\
    valid_response 1 body (lo :: hi :: rest) /\ id = bz lo + 256 * bz hi.
Proof. exact src_device_id_sound. Qed.
Print Assumptions C01_src_device_id_sound.

