(* C04 — resynchronisation and bounded retry. *)
From GV Require Import Base.Bytes Base.Hex Base.LE Vedirect.Frame Vedirect.FrameFacts
     Vedirect.Port Vedirect.Driver Vedirect.DriverFacts.

(* "fails after writing at most eight command frames": for every state, script and fault
   schedule a register access performs at most eight Write calls, each carrying the Get
   frame of the requested address *)
Theorem C04_never_more_than_8 :
  forall c idle addr s, (nwrites (pt (snd (ve_command_get c idle addr s))) <= nwrites (pt s) + 8)%nat.
Proof. exact ve_command_get_at_most_8_writes. Qed.
Print Assumptions C04_never_more_than_8.

Theorem C04_frames_written :
  forall tries c idle addr s, exists k, (k <= tries)%nat /\
    written (pt (snd (ve_command_get_loop tries c idle addr s))) = written (pt s) ++ repeat (tx_frame 7 addr) k.
Proof. exact ve_command_get_loop_frames. Qed.
Print Assumptions C04_frames_written.

(* the first attempt that consumes a valid matching response ends the access with its value *)
Theorem C04_value_at_once :
  forall tries c idle addr s raw v s1,
    ve_command c idle 7 addr s = (Ok raw, s1) -> classify_get addr raw = GValue v ->
    ve_command_get_loop (S tries) c idle addr s = (Ok v, s1).
Proof. exact value_returned_at_once. Qed.
Print Assumptions C04_value_at_once.
