(* C04 — resynchronisation and bounded retry. *)
From GV Require Import Base.Bytes Base.Hex Base.LE Vedirect.Frame Vedirect.FrameFacts
     Vedirect.Port Vedirect.Driver Vedirect.DriverFacts Vedirect.Resync Vedirect.ResyncFacts.

(* REFINEMENT.  On every fault-free script (no write faults; read timeouts and read errors
   allowed anywhere; any chunking of the data; any stale bytes in the reader's buffer and in
   the port) the concrete driver — events, bufio with its 4096-byte buffer, fuel, the eight
   tries — computes exactly what the abstract line machine computes on the plain stream of
   bytes and barriers: the same result, the same number of frames written, the same
   left-over. *)
Theorem C04_refines : forall c idle addr s, oks s ->
  let '(res, s') := ve_command_get c idle addr s in
  let '(ares, w, rest, reacts) := a_get_call idle addr (st_items s) (reactions (pt s)) in
  oks s' /\ rest = st_items s' /\ reacts = reactions (pt s') /\
  nwrites (pt s') = (nwrites (pt s) + w)%nat /\ result_matches ares res.
Proof. exact ve_command_get_refines. Qed.
Print Assumptions C04_refines.

(* SUCCESS.  If each of the first k-1 attempts is answered by something that does not end the
   access (noise without ':', async frames, a partial frame, silence, or one line that is
   invalid / for another register / too short) and the k-th (k <= 8) by a valid matching
   response, possibly behind noise and async frames, the value is returned after exactly k
   command frames. *)
Theorem C04_success : forall tries addr v good more fails w0,
  (List.length fails < tries)%nat ->
  Forall (fun r => attempt_fails addr (reaction_items r)) fails ->
  attempt_succeeds addr v (reaction_items good) ->
  exists rest, a_get tries addr [] (fails ++ good :: more) w0 = (AValue v, (w0 + List.length fails + 1)%nat, rest, more).
Proof. exact a_get_success. Qed.
Print Assumptions C04_success.

(* FAILURE.  If no attempt delivers a valid matching response the access gives up after
   exactly eight (= tries) command frames. *)
Theorem C04_gives_up : forall addr tries fails more w0,
  List.length fails = tries ->
  Forall (fun r => attempt_fails addr (reaction_items r)) fails ->
  exists rest, a_get tries addr [] (fails ++ more) w0 = (AGaveUp, (w0 + tries)%nat, rest, more).
Proof. exact a_get_gives_up. Qed.
Print Assumptions C04_gives_up.

(* text-protocol noise without ':' of any length, and silence, are failing attempts *)
Theorem C04_noise_fails : forall addr d, ~ In c_colon d -> attempt_fails addr (reaction_items [RData d]).
Proof. exact noise_fails. Qed.
Print Assumptions C04_noise_fails.

(* STALE BYTES.  After 100 ms or more of idleness the result does not depend on what is
   buffered or pending (e.g. an outdated valid response for the same register): the
   abstract machine starts from the empty left-over. *)
Theorem C04_idle_flush : forall addr stale1 stale2 reactions,
  a_get_call true addr stale1 reactions = a_get_call true addr stale2 reactions.
Proof. exact a_get_call_idle. Qed.
Print Assumptions C04_idle_flush.

(* for every state, script and fault schedule a register access performs at most eight
   Write calls, each carrying the Get frame of the requested address *)
Theorem C04_never_more_than_8 :
  forall c idle addr s, (nwrites (pt (snd (ve_command_get c idle addr s))) <= nwrites (pt s) + 8)%nat.
Proof. exact ve_command_get_at_most_8_writes. Qed.
Print Assumptions C04_never_more_than_8.

Theorem C04_frames_written :
  forall tries c idle addr s, exists k, (k <= tries)%nat /\
    written (pt (snd (ve_command_get_loop tries c idle addr s))) = written (pt s) ++ repeat (tx_frame 7 addr) k.
Proof. exact ve_command_get_loop_frames. Qed.
Print Assumptions C04_frames_written.

Theorem C04_value_at_once :
  forall tries c idle addr s raw v s1,
    ve_command c idle 7 addr s = (Ok raw, s1) -> classify_get addr raw = GValue v ->
    ve_command_get_loop (S tries) c idle addr s = (Ok v, s1).
Proof. exact value_returned_at_once. Qed.
Print Assumptions C04_value_at_once.

(* non-vacuity: a concrete scenario of the property — stale outdated answer in the port,
   idle call, noise, an async frame, a bad-checksum frame, then the good frame at attempt 3 *)
Example C04_scenario :
  let addr := 60912 in
  let good := [x3a;x37;x46;x30;x45;x44;x30;x30;x39;x36;x30;x30;x44;x42;x0a] in            (* ":7F0ED009600DB\n" *)
  let bad  := [x3a;x37;x46;x30;x45;x44;x30;x30;x39;x36;x30;x30;x44;x43;x0a] in            (* wrong check byte *)
  let asyncf := [x3a;x41;x46;x30;x45;x44;x30;x30;x39;x36;x30;x30;x44;x38;x0a] in
  fst (fst (fst (a_get_call true addr (map IByte good)
     [[RData [x56;x09;x31;x32;x0d;x0a]]; [RData asyncf; RData bad]; [RData [x50]; RData asyncf; RData good]])))
  = AValue [x96; x00].
Proof. vm_compute. reflexivity. Qed.
