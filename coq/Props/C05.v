(* C05 — device-reported errors are surfaced, typed and not retried. *)
From GV Require Import Base.Bytes Base.Hex Base.LE Vedirect.Frame Vedirect.FrameFacts
     Vedirect.Port Vedirect.Driver Vedirect.DriverFacts.
From GV Require Import Tables.ObsTypes Gen.Obs Api.Api Api.ApiFacts Api.ApiErr.

Theorem C05_flag_error :
  forall addr flag trailing, 0 <= addr < 65536 -> In flag [1; 2; 4] ->
    classify_get addr (zb addr :: zb (addr / 256) :: zb flag :: trailing) =
    GFail (if flag =? 1 then EUnknownId else if flag =? 2 then ENotSupported else EParameter).
Proof. exact get_device_error. Qed.
Print Assumptions C05_flag_error.

(* the access ends with that error in the state reached after the single exchange:
   no further command is written *)
Theorem C05_not_retried :
  forall tries c idle addr s raw e s1,
    ve_command c idle 7 addr s = (Ok raw, s1) -> classify_get addr raw = GFail e ->
    ve_command_get_loop (S tries) c idle addr s = (Err e, s1).
Proof. exact device_error_not_retried. Qed.
Print Assumptions C05_not_retried.

(* ... and that single exchange performed exactly one Write call *)
Theorem C05_one_write :
  forall c idle cmd addr s,
    let s' := snd (ve_command c idle cmd addr s) in
    nwrites (pt s') = S (nwrites (pt s)) /\
    (written (pt s') = written (pt s) \/ written (pt s') = written (pt s) ++ [tx_frame cmd addr]).
Proof. exact ve_command_writes. Qed.
Print Assumptions C05_one_write.

(* the register API (all four Read*Register functions, any register r): the error comes
   back wrapped with the register's name, its root is still the device error (errors.Is
   matches), and the read wrote exactly one command frame *)
Theorem C05_api_wrapped :
  forall c idle r s raw e s1,
    ve_command c idle 7 (r_addr r mod 65536) s = (Ok raw, s1) ->
    classify_get (r_addr r mod 65536) raw = GFail e ->
    fst (read_register c idle r s) = Err (wrap r e) /\
    err_root (wrap r e) = err_root e /\
    nwrites (pt (snd (read_register c idle r s))) = S (nwrites (pt s)).
Proof. exact api_device_error. Qed.
Print Assumptions C05_api_wrapped.

Example C05_premises_met :
  classify_get 60912 [xf0; xed; x01] = GFail EUnknownId /\
  classify_get 60912 [xf0; xed; x02; x00; x00] = GFail ENotSupported /\
  classify_get 60912 [xf0; xed; x04; xff] = GFail EParameter.
Proof. repeat split; vm_compute; reflexivity. Qed.
