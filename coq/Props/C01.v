(* C01 — receive integrity.  Only statements, `exact` and Print Assumptions. *)
From GV Require Import Base.Bytes Base.Hex Base.LE Vedirect.Frame Vedirect.FrameFacts
     Vedirect.Port Vedirect.Driver Vedirect.DriverSpec.

(* THE PROPERTY, on the bytes received.  For every logger configuration, driver state (any
   stale buffered bytes), address, idle flag and device script (any events, any write /
   read / flush faults, any number of retries): if the raw accessor returns a value v then
   (bytes buffered before the call ++ bytes handed out by the port during the call)
   contain, contiguously, ':' body '\n' with body a valid Get response (type 7, correct
   check byte, either hex case) for the requested address with flag 0 whose value is
   exactly v. *)
Theorem C01_get_sound :
  forall c idle addr s v s',
    ve_command_get c idle addr s = (Ok v, s') ->
    exists d pre body post,
      delivered (pt s') = delivered (pt s) ++ d /\
      rbuf (rd s) ++ d = pre ++ c_colon :: body ++ c_nl :: post /\
      valid_get_response (addr mod 65536) v body.
Proof. exact ve_command_get_sound. Qed.
Print Assumptions C01_get_sound.

(* the typed accessors return exactly the decoding of such a frame's value *)
Theorem C01_uint_sound :
  forall c idle addr s n s', get_uint c idle addr s = (Ok (VNum n), s') ->
  exists v d pre body post, n = le_uint v /\
    delivered (pt s') = delivered (pt s) ++ d /\
    rbuf (rd s) ++ d = pre ++ c_colon :: body ++ c_nl :: post /\
    valid_get_response (addr mod 65536) v body.
Proof. exact get_uint_sound. Qed.
Print Assumptions C01_uint_sound.

Theorem C01_int_sound :
  forall c idle addr s n s', get_int c idle addr s = (Ok (VNum n), s') ->
  exists v d pre body post, le_int v = Some n /\
    delivered (pt s') = delivered (pt s) ++ d /\
    rbuf (rd s) ++ d = pre ++ c_colon :: body ++ c_nl :: post /\
    valid_get_response (addr mod 65536) v body.
Proof. exact get_int_sound. Qed.
Print Assumptions C01_int_sound.

Theorem C01_string_sound :
  forall c idle addr s t s', get_string c idle addr s = (Ok (VBytes t), s') ->
  exists v d pre body post, t = strip_nul v /\
    delivered (pt s') = delivered (pt s) ++ d /\
    rbuf (rd s) ++ d = pre ++ c_colon :: body ++ c_nl :: post /\
    valid_get_response (addr mod 65536) v body.
Proof. exact get_string_sound. Qed.
Print Assumptions C01_string_sound.

(* the device-id query: a Done (type 1) frame whose first two payload bytes are the id *)
Theorem C01_device_id_sound :
  forall c idle s id s', get_device_id c idle s = (Ok (VNum id), s') ->
  exists d pre body post lo hi rest,
    delivered (pt s') = delivered (pt s) ++ d /\
    rbuf (rd s) ++ d = pre ++ c_colon :: body ++ c_nl :: post /\
    valid_response 1 body (lo :: hi :: rest) /\ id = bz lo + 256 * bz hi.
Proof. exact get_device_id_sound. Qed.
Print Assumptions C01_device_id_sound.

(* Whatever line the driver accepts as the answer to command [cmd] is a valid response of
   the expected type: one hex nibble of that type, hex pairs of either case, correct check
   byte — and the returned bytes are exactly its payload. *)
Theorem C01_line_sound :
  forall cmd line values, parse_response cmd line = Ok values ->
    valid_response (response_for_command cmd) line values.
Proof. exact parse_response_sound. Qed.
Print Assumptions C01_line_sound.

(* A value is extracted only from a valid Get response (type 7) carrying the requested
   address and flag 0, and it is exactly the rest of that frame's payload. *)
Theorem C01_get_value_sound :
  forall addr body raw v, 0 <= addr < 65536 ->
    parse_response 7 body = Ok raw -> classify_get addr raw = GValue v ->
    valid_get_response addr v body.
Proof. exact get_value_sound. Qed.
Print Assumptions C01_get_value_sound.

Theorem C01_foreign_address :
  forall addr lo hi flag v, addr <> bz lo + 256 * bz hi -> classify_get addr (lo :: hi :: flag :: v) = GRetry.
Proof. exact get_no_value_foreign. Qed.
Print Assumptions C01_foreign_address.

Theorem C01_nonzero_flag :
  forall addr lo hi flag v w, bz flag <> 0 -> classify_get addr (lo :: hi :: flag :: v) <> GValue w.
Proof. exact get_no_value_flag. Qed.
Print Assumptions C01_nonzero_flag.

(* the check byte detects every change of a single payload byte *)
Theorem C01_single_substitution :
  forall cmd l1 x y l2, checksum cmd (l1 ++ x :: l2) = checksum cmd (l1 ++ y :: l2) -> x = y.
Proof. exact checksum_single_byte. Qed.
Print Assumptions C01_single_substitution.

(* the executable validity check used by the judge is the specification *)
Theorem C01_valid_responseb_spec :
  forall kind body payload, valid_responseb kind body payload = true <-> valid_response kind body payload.
Proof. exact valid_responseb_spec. Qed.
Print Assumptions C01_valid_responseb_spec.

Example C01_premises_met :
  parse_response 7 [x37; x46; x30; x45; x44; x30; x30; x39; x36; x30; x30; x44; x42] = Ok [xf0; xed; x00; x96; x00]
  /\ classify_get 60912 [xf0; xed; x00; x96; x00] = GValue [x96; x00]
  /\ parse_response 7 [x37; x46; x30; x45; x44; x30; x33; x39; x36; x30; x30; x44; x38] = Ok [xf0; xed; x03; x96; x00]
  /\ classify_get 60912 [xf0; xed; x03; x96; x00] = GFail EOther.
Proof. repeat split; vm_compute; reflexivity. Qed.
