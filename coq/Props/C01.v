(* C01 — receive integrity.  Only statements, `exact` and Print Assumptions. *)
From GV Require Import Base.Bytes Base.Hex Base.LE Vedirect.Frame Vedirect.FrameFacts.

(* Whatever line the driver accepts as the answer to command [cmd] is a valid response of
   the expected type: one hex nibble of that type, hex pairs of either case, correct check
   byte — and the returned bytes are exactly its payload. *)
Theorem C01_line_sound :
  forall cmd line values, parse_response cmd line = Ok values ->
    valid_response (response_for_command cmd) line values.
Proof. exact parse_response_sound. Qed.
Print Assumptions C01_line_sound.

(* A value is extracted only from a valid Get response (type 7) carrying the requested
   address and flag 0, and it is exactly the rest of that frame's payload. *)
Theorem C01_get_value_sound :
  forall addr body raw v, 0 <= addr < 65536 ->
    parse_response 7 body = Ok raw -> classify_get addr raw = GValue v ->
    valid_get_response addr v body.
Proof. exact get_value_sound. Qed.
Print Assumptions C01_get_value_sound.

Theorem C01_foreign_address :
  forall addr lo hi flag v, addr <> bz lo + 256 * bz hi -> classify_get addr (lo :: hi :: flag :: v) = GRetry.
Proof. exact get_no_value_foreign. Qed.
Print Assumptions C01_foreign_address.

Theorem C01_nonzero_flag :
  forall addr lo hi flag v w, bz flag <> 0 -> classify_get addr (lo :: hi :: flag :: v) <> GValue w.
Proof. exact get_no_value_flag. Qed.
Print Assumptions C01_nonzero_flag.

(* the check byte detects every change of a single payload byte *)
Theorem C01_single_substitution :
  forall cmd l1 x y l2, checksum cmd (l1 ++ x :: l2) = checksum cmd (l1 ++ y :: l2) -> x = y.
Proof. exact checksum_single_byte. Qed.
Print Assumptions C01_single_substitution.

(* the executable validity check used by the judge is the specification *)
Theorem C01_valid_responseb_spec :
  forall kind body payload, valid_responseb kind body payload = true <-> valid_response kind body payload.
Proof. exact valid_responseb_spec. Qed.
Print Assumptions C01_valid_responseb_spec.

Example C01_premises_met :
  parse_response 7 [x37; x46; x30; x45; x44; x30; x30; x39; x36; x30; x30; x44; x42] = Ok [xf0; xed; x00; x96; x00]
  /\ classify_get 60912 [xf0; xed; x00; x96; x00] = GValue [x96; x00]
  /\ parse_response 7 [x37; x46; x30; x45; x44; x30; x33; x39; x36; x30; x30; x44; x38] = Ok [xf0; xed; x03; x96; x00]
  /\ classify_get 60912 [xf0; xed; x03; x96; x00] = GFail EOther.
Proof. repeat split; vm_compute; reflexivity. Qed.
