(* C03src -- the property's anchored source (package vedirect) translated on every run into
   Gen/DrvImpl.v and proved equal in behaviour to the hand-written model (tie T-gen).  Only statements,
   `exact` and Print Assumptions. *)
From GV Require Import Vedirect.DrvSem Gen.DrvImpl Base.HexFacts Vedirect.FrameFacts Vedirect.PortFacts
     Vedirect.DriverFacts Vedirect.DriverSpec Vedirect.DrvRefine Vedirect.DrvProps.
Import ListNotations.
Local Open Scope Z_scope.

Theorem C03_src_sendCommand : forall c cmd data v idle, 0 <= cmd < 256 ->
  go_sendCommand c cmd data (mkD v idle)
  = (DVal (if fst (vd_write c (tx_frame_data cmd data) v) then None else Some EOther),
     mkD (snd (vd_write c (tx_frame_data cmd data) v)) idle).
Proof. exact go_sendCommand_spec. Qed.
Print Assumptions C03_src_sendCommand.

Theorem C03_src_write : forall c b v idle,
  go_write c b (mkD v idle)
  = (DVal (if fst (vd_write c b v) then (g_len b, None) else (0, Some EOther)), mkD (snd (vd_write c b v)) idle).
Proof. exact go_write_spec. Qed.
Print Assumptions C03_src_write.

Theorem C03_src_computeChecksum : forall cmd data s,
  go_computeChecksum cmd data s = (DVal (bz (compute_checksum cmd data)), s).
Proof. exact go_computeChecksum_spec. Qed.
Print Assumptions C03_src_computeChecksum.

(* the property on the translated source: whatever sendCommand hands to Write is a well-formed frame *)
Theorem C03_src_frame_written : forall c cmd data v idle, 0 <= cmd < 16 ->
  let out := go_sendCommand c cmd data (mkD v idle) in
  written (pt (d_vd (snd out))) = written (pt v) \/
  (written (pt (d_vd (snd out))) = written (pt v) ++ [tx_frame_data cmd data] /\ tx_wellformed (tx_frame_data cmd data) = true).
Proof. exact src_frame_written. Qed.
Print Assumptions C03_src_frame_written.

