(* C03 — every transmitted command is a well-formed HEX frame.
   Only statements, `exact` and Print Assumptions in this file. *)
From GV Require Import Base.Bytes Base.Hex Vedirect.Frame Vedirect.FrameFacts.

(* For every command nibble and every address (any integer: the model reduces it the way
   Go's byte() conversions do) the written frame is accepted by the independent grammar
   ':' nibble (uppercase hex digit pairs) '\n', nibble + bytes sum to 0x55 mod 256, a Get
   carries exactly lo hi 00 and Ping / DeviceId carry no payload. *)
Theorem C03_wellformed :
  forall cmd addr, 0 <= cmd < 16 -> C03_frame_ok cmd addr (tx_frame cmd addr) = true.
Proof. exact tx_frame_ok. Qed.
Print Assumptions C03_wellformed.

(* the same for an arbitrary payload (covers Set with data, should it ever be sent) *)
Theorem C03_wellformed_any_payload :
  forall cmd data, 0 <= cmd < 16 -> tx_wellformed (tx_frame_data cmd data) = true.
Proof. exact tx_frame_data_wellformed. Qed.
Print Assumptions C03_wellformed_any_payload.

Theorem C03_get_payload :
  forall addr, exists chk,
    parse_tx (tx_frame 7 addr) = Some (7, [zb addr; zb (addr / 256); x00; chk]).
Proof. exact tx_get_payload. Qed.
Print Assumptions C03_get_payload.

Theorem C03_no_payload :
  forall cmd addr, In cmd [1; 3; 4; 6; 10] ->
    exists chk, parse_tx (tx_frame cmd addr) = Some (cmd, [chk]).
Proof. exact tx_no_payload. Qed.
Print Assumptions C03_no_payload.

(* the grammar is not vacuous: it rejects the frame the pinned code used to write *)
Example C03_rejects_unpadded_check_byte :
  tx_wellformed [x3a; x37; x34; x30; x30; x30; x30; x30; x45; x0a] = false  (* ":7400000E\n" *)
  /\ tx_wellformed (tx_frame 7 64) = true.
Proof. split; vm_compute; reflexivity. Qed.
