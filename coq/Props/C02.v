(* C02 — register values round-trip exactly through the wire encoding. *)
From GV Require Import Base.Bytes Base.Hex Base.LE Base.HexFacts Vedirect.Frame Vedirect.FrameFacts
     Vedirect.Port Vedirect.Driver Vedirect.Resync Vedirect.ResyncFacts Vedirect.SeqFacts.

(* DRIVER LEVEL.  A fresh or idle driver; the device answers the first attempt with optional
   text-protocol noise (no ':') followed by the frame a conforming device sends for
   (addr, v) — any hex case — cut into data events in ANY way: the raw accessor returns
   exactly v after exactly one command frame.  (Through the refinement C04_refines.) *)
Theorem C02_driver_roundtrip : forall c addr v pre body react s more,
  oks s -> reactions (pt s) = react :: more ->
  0 <= addr < 65536 -> ~ In c_colon pre -> valid_get_response addr v body ->
  clean react = true ->
  forallb (fun e => match e with RData _ => true | _ => false end) react = true ->
  concat_data react = pre ++ c_colon :: body ++ [c_nl] ->
  exists s', ve_command_get c true addr s = (Ok v, s') /\ nwrites (pt s') = S (nwrites (pt s)).
Proof. exact conforming_exchange_returns_value. Qed.
Print Assumptions C02_driver_roundtrip.

(* HISTORIES.  Any sequence of typed reads (raw / unsigned / signed / string, idle or busy
   line, any addresses) against a device that answers each command with noise-free-of-':'
   followed by the conforming frame for that read, cut into data events in any way: the k-th
   call returns exactly what the accessor's decoding of the k-th encoded payload is (signed:
   an error for widths other than 1, 2, 4, 8), one command frame per call, and the driver is
   drained again after each call.  run_calls is the function the correspondence check runs
   against the implementation. *)
Theorem C02_sequence : forall c (kxs : list (gkind * exch)) s more,
  oks s -> st_items s = [] -> reactions (pt s) = map (fun kx => x_react (snd kx)) kxs ++ more ->
  Forall (fun kx => conforming (snd kx)) kxs ->
  let '(rs, s') := run_calls c (map (fun kx => (x_idle (snd kx), call_of (fst kx) (x_addr (snd kx)))) kxs) s in
  rs = map (fun kx => expect_of (fst kx) (x_val (snd kx))) kxs /\
  oks s' /\ st_items s' = [] /\ reactions (pt s') = more /\
  nwrites (pt s') = (nwrites (pt s) + length kxs)%nat.
Proof. exact conforming_typed_history. Qed.
Print Assumptions C02_sequence.

Theorem C02_sequence_raw : forall c xs s more,
  oks s -> st_items s = [] -> reactions (pt s) = map x_react xs ++ more -> Forall conforming xs ->
  let '(rs, s') := run_gets c xs s in
  rs = map (fun x => Ok (x_val x)) xs /\ oks s' /\ st_items s' = [] /\ reactions (pt s') = more /\
  nwrites (pt s') = (nwrites (pt s) + length xs)%nat.
Proof. exact conforming_history_returns_values. Qed.
Print Assumptions C02_sequence_raw.

Theorem C02_uint :
  forall w n, (w <= 8)%nat -> 0 <= n < 256 ^ Z.of_nat w -> le_uint (le_encode w n) = n.
Proof. exact le_uint_encode. Qed.
Print Assumptions C02_uint.

(* sign extension according to the width actually sent, bit 63 included *)
Theorem C02_int :
  forall w z, In w [1; 2; 4; 8]%nat ->
    - 2 ^ (8 * Z.of_nat w - 1) <= z < 2 ^ (8 * Z.of_nat w - 1) ->
    le_int (le_encode_signed w z) = Some z.
Proof. exact le_int_encode. Qed.
Print Assumptions C02_int.

Theorem C02_int_bad_width :
  forall bs, ~ In (length bs) [1; 2; 4; 8]%nat -> le_int bs = None.
Proof. exact le_int_bad_width. Qed.
Print Assumptions C02_int_bad_width.

(* trailing NULs stripped, every other byte (interior NULs included) preserved *)
Theorem C02_string :
  forall s k, (s = [] \/ exists i l, s = i ++ [l] /\ l <> x00) -> strip_nul (s ++ repeat x00 k) = s.
Proof. exact strip_nul_padded. Qed.
Print Assumptions C02_string.

(* every frame a conforming device sends for (addr, v) — any hex case — is accepted and
   yields exactly v *)
Theorem C02_raw :
  forall addr body v, 0 <= addr < 65536 -> valid_get_response addr v body ->
    exists raw, parse_response 7 body = Ok raw /\ classify_get addr raw = GValue v.
Proof. exact get_value_complete. Qed.
Print Assumptions C02_raw.

Theorem C02_any_response_accepted :
  forall cmd body payload, valid_response (response_for_command cmd) body payload ->
    (2 <= length payload)%nat -> parse_response cmd body = Ok payload.
Proof. exact parse_response_complete. Qed.
Print Assumptions C02_any_response_accepted.

(* hex text produced by a device in upper case decodes to the bytes it encodes *)
Theorem C02_hex_roundtrip : forall bs, hex_decode (hex_upper bs) = Some bs.
Proof. exact hex_decode_upper. Qed.
Print Assumptions C02_hex_roundtrip.

Example C02_premises_met :
  le_int (le_encode_signed 8 (- 2 ^ 63)) = Some (- 2 ^ 63)
  /\ le_int (le_encode_signed 2 (-32768)) = Some (-32768)
  /\ le_uint (le_encode 8 (2 ^ 64 - 1)) = 2 ^ 64 - 1
  /\ strip_nul [x41; x00; x42; x00; x00] = [x41; x00; x42].
Proof. repeat split; vm_compute; reflexivity. Qed.
