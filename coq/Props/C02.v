(* C02 — register values round-trip exactly through the wire encoding. *)
From GV Require Import Base.Bytes Base.Hex Base.LE Base.HexFacts Vedirect.Frame Vedirect.FrameFacts.

Theorem C02_uint :
  forall w n, (w <= 8)%nat -> 0 <= n < 256 ^ Z.of_nat w -> le_uint (le_encode w n) = n.
Proof. exact le_uint_encode. Qed.
Print Assumptions C02_uint.

(* sign extension according to the width actually sent, bit 63 included *)
Theorem C02_int :
  forall w z, In w [1; 2; 4; 8]%nat ->
    - 2 ^ (8 * Z.of_nat w - 1) <= z < 2 ^ (8 * Z.of_nat w - 1) ->
    le_int (le_encode_signed w z) = Some z.
Proof. exact le_int_encode. Qed.
Print Assumptions C02_int.

Theorem C02_int_bad_width :
  forall bs, ~ In (length bs) [1; 2; 4; 8]%nat -> le_int bs = None.
Proof. exact le_int_bad_width. Qed.
Print Assumptions C02_int_bad_width.

(* trailing NULs stripped, every other byte (interior NULs included) preserved *)
Theorem C02_string :
  forall s k, (s = [] \/ exists i l, s = i ++ [l] /\ l <> x00) -> strip_nul (s ++ repeat x00 k) = s.
Proof. exact strip_nul_padded. Qed.
Print Assumptions C02_string.

(* every frame a conforming device sends for (addr, v) — any hex case — is accepted and
   yields exactly v *)
Theorem C02_raw :
  forall addr body v, 0 <= addr < 65536 -> valid_get_response addr v body ->
    exists raw, parse_response 7 body = Ok raw /\ classify_get addr raw = GValue v.
Proof. exact get_value_complete. Qed.
Print Assumptions C02_raw.

Theorem C02_any_response_accepted :
  forall cmd body payload, valid_response (response_for_command cmd) body payload ->
    (2 <= length payload)%nat -> parse_response cmd body = Ok payload.
Proof. exact parse_response_complete. Qed.
Print Assumptions C02_any_response_accepted.

(* hex text produced by a device in upper case decodes to the bytes it encodes *)
Theorem C02_hex_roundtrip : forall bs, hex_decode (hex_upper bs) = Some bs.
Proof. exact hex_decode_upper. Qed.
Print Assumptions C02_hex_roundtrip.

Example C02_premises_met :
  le_int (le_encode_signed 8 (- 2 ^ 63)) = Some (- 2 ^ 63)
  /\ le_int (le_encode_signed 2 (-32768)) = Some (-32768)
  /\ le_uint (le_encode 8 (2 ^ 64 - 1)) = 2 ^ 64 - 1
  /\ strip_nul [x41; x00; x42; x00; x00] = [x41; x00; x42].
Proof. repeat split; vm_compute; reflexivity. Qed.
