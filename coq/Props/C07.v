(* C07 — BLE record decoders implement the published bit layout for every input. *)
From GV Require Import Ble.GoSem Ble.Layout Ble.LayoutFacts Gen.BleImpl Ble.RefineTac Ble.RefineAll.
Open Scope Z_scope.

(* For each of the thirteen decoders (as translated from /repo/bleparser on this run) and
   for EVERY input: the result equals spec_decode of the record's layout table — each field
   the little-endian bit slice [start, start+width), unsigned or two's complement, scaled
   and offset to the declared unit, NaN for exactly the not-available codes, mode-dependent
   fields selected by the aux bits, enum codes validated. *)
Theorem C07_all_decoders :
  refines fields_AcChargerRecord DecodeAcChargerRecord layout_AcCharger /\
  refines fields_BatteryMonitorRecord DecodeBatteryMonitorRecord layout_BatteryMonitor /\
  refines fields_DcDcConverterRecord DecodeDcDcConverterRecord layout_DcDcConverter /\
  refines fields_DcEnergyMeterRecord DecodeDcEnergyMeterRecord layout_DcEnergyMeter /\
  refines fields_GxDeviceRecord DecodeGxDeviceRecord layout_GxDevice /\
  refines fields_InverterRecord DecodeInverterRecord layout_Inverter /\
  refines fields_InverterRsRecord DecodeInverterRsRecord layout_InverterRs /\
  refines fields_LynxSmartBms DecodeLynxSmartBms layout_LynxSmartBms /\
  refines fields_MultiRsRecord DecodeMultiRsRecord layout_MultiRs /\
  refines fields_SmartBatteryProtectRecord DecodeSmartBatteryProtectRecord layout_SmartBatteryProtect /\
  refines fields_SmartLithiumRecord DecodeSmartLithiumRecord layout_SmartLithium /\
  refines fields_SolarChargerRecord DecodeSolarChargeRecord layout_SolarCharger /\
  refines fields_VeBusRecord DecodeVeBusRecord layout_VeBus.
Proof. exact all_refine. Qed.
Print Assumptions C07_all_decoders.

(* `bits` (defined from the bytes covering the field) is the slice of the little-endian
   number of the whole input *)
Theorem C07_bits_is_le_slice : forall inp start width,
  0 <= start -> 0 <= width -> field_end start width <= g_len inp ->
  bits inp start width = (le_val inp / 2 ^ start) mod 2 ^ width.
Proof. exact bits_is_le_slice. Qed.
Print Assumptions C07_bits_is_le_slice.

(* bits outside a field never influence that field *)
Theorem C07_bits_outside : forall a b start width,
  firstn (Z.to_nat ((start mod 8 + width + 7) / 8)) (skipn (Z.to_nat (start / 8)) a) =
  firstn (Z.to_nat ((start mod 8 + width + 7) / 8)) (skipn (Z.to_nat (start / 8)) b) ->
  bits a start width = bits b start width.
Proof. exact bits_ext. Qed.
Print Assumptions C07_bits_outside.

(* non-vacuity: the specification reproduces a published test vector, -1.000 A is negative,
   and an all-ones record is NaN in every float field *)
Example C07_spec_examples :
  spec_decode layout_BatteryMonitor (map zb [255;255;229;4;0;0;0;0;3;0;0;244;1;64;223;3]) =
    SpecFields [FVFloat FNaN; FVFloat (FNum (1253 # 100)%Q); FVInt 0; FVFloat FNaN; FVFloat FNaN; FVFloat FNaN;
             FVInt 3; FVFloat (FNum (0 # 1000)%Q); FVFloat (FNum (-500 # 10)%Q); FVFloat (FNum (500 # 10)%Q)]
  /\ (* raw 0x3FFC18 in the 22-bit current field = -1000 -> -1.000 A *)
  field_value (map zb [0;0;0;0;0;0;0;0;96;240;255;0;0;0;0]) (nth 7 layout_BatteryMonitor (fi "" 0 0 false)) =
    FVFloat (FNum (-1000 # 1000)%Q).
Proof. split; vm_compute; reflexivity. Qed.
