(* C18src -- the property's anchored source (package vedirect) translated on every run into
   Gen/DrvImpl.v and proved equal in behaviour to the hand-written model (tie T-gen).  Only statements,
   `exact` and Print Assumptions. *)
From GV Require Import Vedirect.DrvSem Gen.DrvImpl Base.HexFacts Vedirect.FrameFacts Vedirect.PortFacts
     Vedirect.DriverFacts Vedirect.DriverSpec Vedirect.DrvRefine Vedirect.DrvProps.
Import ListNotations.
Local Open Scope Z_scope.

(* every entry point of the translated driver against the model's call: same value or same error
   class, and the same driver state -- port traffic, buffered bytes, I/O log lines *)
Theorem C18_src_call_refines : forall c idle k s, call_in_range k ->
  outcome_rel (go_call c k (mkD s idle)) (do_call c idle k s).
Proof. exact go_call_refines. Qed.
Print Assumptions C18_src_call_refines.

Theorem C18_src_line_end : forall c v idle,
  (if orb (cfg_debug c) (cfg_iolog c) then bind (go_ioLoggerLineEnd c) (fun _ => ret tt) else ret tt) (mkD v idle)
  = (DVal tt, mkD (io_line_end c v) idle).
Proof. exact line_end_spec. Qed.
Print Assumptions C18_src_line_end.

Theorem C18_src_write : forall c b v idle,
  go_write c b (mkD v idle)
  = (DVal (if fst (vd_write c b v) then (g_len b, None) else (0, Some EOther)), mkD (snd (vd_write c b v)) idle).
Proof. exact go_write_spec. Qed.
Print Assumptions C18_src_write.

Theorem C18_src_recvUntil : forall c needle v idle,
  exists o, go_recvUntil c needle (mkD v idle) = (o, mkD (snd (recv_until c (zb needle) v)) idle)
            /\ res_rel o (fst (recv_until c (zb needle) v)).
Proof. exact go_recvUntil_spec. Qed.
Print Assumptions C18_src_recvUntil.

