(* C06src -- the property's anchored source (package vedirect) translated on every run into
   Gen/DrvImpl.v and proved equal in behaviour to the hand-written model (tie T-gen).  Only statements,
   `exact` and Print Assumptions. *)
From GV Require Import Vedirect.DrvSem Gen.DrvImpl Base.HexFacts Vedirect.FrameFacts Vedirect.PortFacts
     Vedirect.DriverFacts Vedirect.DriverSpec Vedirect.DrvRefine Vedirect.DrvProps.
Import ListNotations.
Local Open Scope Z_scope.

(* the property on the translated source: no entry point panics or exhausts the fuel of its loops *)
Theorem C06_src_call_total : forall c idle k s, call_in_range k ->
  fst (go_call c k (mkD s idle)) <> DPanic /\ fst (go_call c k (mkD s idle)) <> DFuel.
Proof. exact src_call_total. Qed.
Print Assumptions C06_src_call_total.

(* every entry point of the translated driver against the model's call: same value or same error
   class, and the same driver state -- port traffic, buffered bytes, I/O log lines *)
Theorem C06_src_call_refines : forall c idle k s, call_in_range k ->
  outcome_rel (go_call c k (mkD s idle)) (do_call c idle k s).
Proof. exact go_call_refines. Qed.
Print Assumptions C06_src_call_refines.

