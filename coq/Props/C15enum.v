(* C15enum -- every NewEnum / NewFieldList of package veconst translated on every run into Gen/EnumImpl.v and
   proved equal to the model of Tables/Enum.v for every integer (tie T-gen; the typed constructor New is the
   regenerated observation of all 256 bytes).  Only statements, `exact` and Print Assumptions. *)
From GV Require Import Vedirect.DrvSem Tables.EnumSem Gen.EnumImpl Tables.EnumRefine.
Import ListNotations.
Local Open Scope Z_scope.

Theorem C15_src_all_new_fieldlist :
  Forall (fun p => forall v s, snd p v s = (DVal (new_fieldlist_model (fst p) v), s)) all_new_fieldlist.
Proof. exact all_new_fieldlist_refine. Qed.
Print Assumptions C15_src_all_new_fieldlist.

Theorem C15_src_all_new_fieldlist_complete :
  forallb (fun f => existsb (String.eqb (f_name f)) (map fst all_new_fieldlist)) obs_fieldlists = true.
Proof. exact all_new_fieldlist_complete. Qed.
Print Assumptions C15_src_all_new_fieldlist_complete.

