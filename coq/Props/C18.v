(* C18 — logging is transparent. *)
From GV Require Import Base.Bytes Vedirect.Frame Vedirect.Port Vedirect.Driver Vedirect.LogFacts.

(* For any two logger configurations and any two driver states that agree on the reader
   and the port (whatever their log buffers hold), every call returns the same result and
   leaves the same reader and port state: same bytes written, same reads, same flushes. *)
Theorem C18_transparent :
  forall c1 c2 idle k a b, sim a b -> rsim (do_call c1 idle k a) (do_call c2 idle k b).
Proof. exact do_call_sim. Qed.
Print Assumptions C18_transparent.

Theorem C18_transparent_histories :
  forall c1 c2 ks a b, sim a b ->
    fst (run_calls c1 ks a) = fst (run_calls c2 ks b) /\ sim (snd (run_calls c1 ks a)) (snd (run_calls c2 ks b)).
Proof. exact run_calls_sim. Qed.
Print Assumptions C18_transparent_histories.

Theorem C18_no_logger_no_lines :
  forall c idle k s, cfg_iolog c = false -> io_lines (snd (do_call c idle k s)) = io_lines s.
Proof. exact no_iolog_no_lines. Qed.
Print Assumptions C18_no_logger_no_lines.
