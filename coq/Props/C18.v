(* C18 — logging is transparent and the I/O log replays. *)
From GV Require Import Base.Bytes Vedirect.Frame Vedirect.Port Vedirect.Driver Vedirect.LogFacts
     Vedirect.SeqFacts Vedirect.ReplayFacts.

(* For any two logger configurations and any two driver states that agree on the reader
   and the port (whatever their log buffers hold), every call returns the same result and
   leaves the same reader and port state: same bytes written, same reads, same flushes. *)
Theorem C18_transparent :
  forall c1 c2 idle k a b, sim a b -> rsim (do_call c1 idle k a) (do_call c2 idle k b).
Proof. exact do_call_sim. Qed.
Print Assumptions C18_transparent.

Theorem C18_transparent_histories :
  forall c1 c2 ks a b, sim a b ->
    fst (run_calls c1 ks a) = fst (run_calls c2 ks b) /\ sim (snd (run_calls c1 ks a)) (snd (run_calls c2 ks b)).
Proof. exact run_calls_sim. Qed.
Print Assumptions C18_transparent_histories.

Theorem C18_no_logger_no_lines :
  forall c idle k s, cfg_iolog c = false -> io_lines (snd (do_call c idle k s)) = io_lines s.
Proof. exact no_iolog_no_lines. Qed.
Print Assumptions C18_no_logger_no_lines.

(* with an I/O logger every typed call emits exactly one line; its tx part is what was logged
   before the call (nothing, in a history of typed calls) followed by the frames successfully
   written during the call, in order; the log buffers are empty afterwards *)
Theorem C18_one_line : forall c, cfg_iolog c = true -> forall idle k s,
  match k with CPing | CDeviceId | CGetUint _ | CGetInt _ | CGetString _ => True | _ => False end ->
  exists ws rx,
    written (pt (snd (do_call c idle k s))) = written (pt s) ++ ws /\
    io_lines (snd (do_call c idle k s)) = io_lines s ++ [(io_tx s ++ concat ws, rx)] /\
    io_tx (snd (do_call c idle k s)) = [] /\ io_rx (snd (do_call c idle k s)) = [].
Proof. exact typed_call_one_line. Qed.
Print Assumptions C18_one_line.

(* REPLAY.  With an I/O logger and empty log buffers (the state after every typed call and
   of a new driver), a typed register read — unsigned, signed or string; any address, any
   driver state and device script, idle or busy line — that wrote exactly one command emits
   exactly one line (tx, rx), tx being that command frame, and a fresh driver on a lookup port
   that answers tx with rx returns the same result (value, decoding error or device error)
   under any logger configuration. *)
Theorem C18_replay : forall c k addr idle s,
  cfg_iolog c = true -> io_tx s = [] -> io_rx s = [] -> k <> GRaw ->
  let '(r, s') := do_call c idle (call_of k addr) s in
  nwrites (pt s') = S (nwrites (pt s)) ->
  exists rx, io_lines s' = io_lines s ++ [(tx_frame 7 (addr mod 65536), rx)] /\
             forall c2, fst (do_call c2 true (call_of k addr) (lookup_state rx)) = r.
Proof. exact typed_get_replays. Qed.
Print Assumptions C18_replay.

(* Ping and GetDeviceId always are a single exchange: one line; whenever the command went
   out (tx not empty), tx is the command frame and the replay reproduces the result — the
   value, the response-parsing error, or the transport failure *)
Theorem C18_replay_commands : forall c k idle s,
  k = CPing \/ k = CDeviceId -> cfg_iolog c = true -> io_tx s = [] -> io_rx s = [] ->
  let '(r, s') := do_call c idle k s in
  exists tx rx, io_lines s' = io_lines s ++ [(tx, rx)] /\
    (tx <> [] -> tx = command_frame k /\ forall c2, fst (do_call c2 true k (lookup_state rx)) = r).
Proof. exact command_replays. Qed.
Print Assumptions C18_replay_commands.

(* non-vacuity: a string read answered after noise and an async frame, replayed *)
Example C18_replay_scenario :
  let dev := [x0d;x0a;x3a;x41;x34;x46;x45;x44;x30;x30;x31;x32;x46;x44;x0a;x3a;x37;x30;x41;x30;x31;x30;x30;x34;x38;x35;x31;x33;x32;x30;x30;x37;x38;x0a] in
  let s := vd_new (mkPort [] [[RData dev]] [] [] false [] 0 0 0 0 []) in
  let '(r, s') := do_call (mkCfg false true) true (CGetString 266) s in
  nwrites (pt s') = 1%nat /\ io_lines s' = [(tx_frame 7 266, dev)] /\
  fst (do_call (mkCfg false false) true (CGetString 266) (lookup_state dev)) = r.
Proof. vm_compute. split; [reflexivity|split; reflexivity]. Qed.
