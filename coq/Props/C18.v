(* C18 — logging is transparent. *)
From GV Require Import Base.Bytes Vedirect.Frame Vedirect.Port Vedirect.Driver Vedirect.LogFacts.

(* For any two logger configurations and any two driver states that agree on the reader
   and the port (whatever their log buffers hold), every call returns the same result and
   leaves the same reader and port state: same bytes written, same reads, same flushes. *)
Theorem C18_transparent :
  forall c1 c2 idle k a b, sim a b -> rsim (do_call c1 idle k a) (do_call c2 idle k b).
Proof. exact do_call_sim. Qed.
Print Assumptions C18_transparent.

Theorem C18_transparent_histories :
  forall c1 c2 ks a b, sim a b ->
    fst (run_calls c1 ks a) = fst (run_calls c2 ks b) /\ sim (snd (run_calls c1 ks a)) (snd (run_calls c2 ks b)).
Proof. exact run_calls_sim. Qed.
Print Assumptions C18_transparent_histories.

Theorem C18_no_logger_no_lines :
  forall c idle k s, cfg_iolog c = false -> io_lines (snd (do_call c idle k s)) = io_lines s.
Proof. exact no_iolog_no_lines. Qed.
Print Assumptions C18_no_logger_no_lines.

(* with an I/O logger every typed call emits exactly one line; its tx part is what was logged
   before the call (nothing, in a history of typed calls) followed by the frames successfully
   written during the call, in order; the log buffers are empty afterwards *)
Theorem C18_one_line : forall c, cfg_iolog c = true -> forall idle k s,
  match k with CPing | CDeviceId | CGetUint _ | CGetInt _ | CGetString _ => True | _ => False end ->
  exists ws rx,
    written (pt (snd (do_call c idle k s))) = written (pt s) ++ ws /\
    io_lines (snd (do_call c idle k s)) = io_lines s ++ [(io_tx s ++ concat ws, rx)] /\
    io_tx (snd (do_call c idle k s)) = [] /\ io_rx (snd (do_call c idle k s)) = [].
Proof. exact typed_call_one_line. Qed.
Print Assumptions C18_one_line.
